#!/bin/bash
# false-alarm hunt on the unchanged tree: quick tier over many seeds, then thorough. Meant for `vp run --with-repo`.
# usage: tools_campaign.sh <first seed> <last seed> [thorough]
cd "$(dirname "$0")"
if [ -n "$VP_RUN_REPO" ]; then sed -i "s#path = \"/repo\"#path = \"$VP_RUN_REPO\"#" harness/Cargo.toml; fi
./check --setup >/dev/null 2>&1
for s in $(seq $1 $2); do
  for i in $(seq -w 1 20); do
    out=$(VERIF_SEED=$s ./check C$i quick 2>&1); rc=$?
    if [ $rc -ne 0 ]; then echo "ALARM seed=$s C$i rc=$rc"; echo "$out" | grep -E "VIOLATION|INCONCLUSIVE|^  C[0-9]+/" | head -5 | cut -c1-600; fi
  done
  echo "seed $s done"
done
if [ "$3" = "thorough" ]; then
  for i in $(seq -w 1 20); do
    out=$(VERIF_SEED=$1 ./check C$i thorough 2>&1); rc=$?
    echo "thorough C$i rc=$rc $(echo "$out" | grep -E "^C$i Thorough" | tail -3 | tr '\n' ' ' | cut -c1-300)"
    if [ $rc -ne 0 ]; then echo "$out" | grep -E "VIOLATION|INCONCLUSIVE|^  C[0-9]+/" | head -5 | cut -c1-600; fi
  done
fi
