#!/usr/bin/env python3
"""Generates MANIFEST.json from the table below (run after adding a check)."""
import json
import subprocess

HOOK_COMMITS = ["6837c9b"]

CHECKS = {
    "C01": dict(
        technique="reference-model monitor: exact rational 4x4 scanline model evaluated on every pixel of generated fills",
        text="Every pixel of every generated fill (random, directed, and in the thorough tier every quarter-grid triangle on a 2x2 surface) is compared with an exact integer model of the statement; held on the cases run, nothing is proved.",
        note="Trusts the observation identity white-on-transparent alpha == coverage byte (all four channels are checked to agree), the i128 model in harness/src/checks/c01.rs, and leaves pixels with an edge crossing inside the fixed-point ambiguity band unasserted (counted in the evidence).",
        ref="DESIGN.md section 3, C01",
    ),
}

NOT_BUILT_REASON = "check not built yet in this round (planned, see DESIGN.md section 3); not claimed"

ALL = ["C%02d" % i for i in range(1, 21)]


def main():
    m = {
        "version": 1,
        "setup_cmd": "./check --setup",
        "hooks": {
            "guard": "raqote_verif",
            "enable": "RUSTFLAGS=\"--cfg raqote_verif --check-cfg=cfg(raqote_verif)\" (set by ./check for every build of the harness, which path-depends on /repo)",
            "baseline_off_cmd": "cd /repo && cargo test --workspace --no-fail-fast --offline",
            "source_commits": HOOK_COMMITS,
            "add_only": True,
        },
        "engines": [
            {
                "name": "rv",
                "path": "harness/",
                "serves_properties": sorted(CHECKS.keys()),
                "kind_free_text": "Rust harness linked against /repo's working tree: workload generators, reference-model oracles and online monitors observing real executions of raqote; Miri and AddressSanitizer builds of the same workloads for the memory side",
            }
        ],
        "checks": [],
        "notes": "Runtime monitoring only. Every check rebuilds the harness against /repo's working tree (cargo fingerprints the path dependency) with the hooks enabled. Exit 0 = held on everything explored, 1 = violation with replay file, 2 = inconclusive (build failure, watchdog). Known findings are listed in known_findings.json.",
        "not_applicable": [],
    }
    for pid in ALL:
        if pid in CHECKS:
            c = CHECKS[pid]
            m["checks"].append(
                {
                    "property_id": pid,
                    "quick_cmd": "./check %s quick" % pid,
                    "thorough_cmd": "./check %s thorough" % pid,
                    "evidence_file": "evidence/%s.json" % pid,
                    "replay_cmd_template": "./check %s --replay {path}" % pid,
                    "engine": "rv",
                    "level_claimed": {"category": "exploration", "text": c["text"], "design_ref": c["ref"]},
                    "level_note": c["note"],
                    "technique": c["technique"],
                }
            )
        else:
            m["not_applicable"].append({"property_id": pid, "reason": NOT_BUILT_REASON})
    with open("/verif/MANIFEST.json", "w") as f:
        json.dump(m, f, indent=1)
        f.write("\n")


if __name__ == "__main__":
    main()
