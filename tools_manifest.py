#!/usr/bin/env python3
"""Generates MANIFEST.json from the table below (run after adding a check)."""
import json
import subprocess

HOOK_COMMITS = ["6837c9b"]

CHECKS = {
    "C01": dict(
        technique="reference-model monitor: exact rational 4x4 scanline model evaluated on every pixel of generated fills",
        text="Every pixel of every generated fill (random, directed, and in the thorough tier every quarter-grid triangle on a 2x2 surface) is compared with an exact integer model of the statement; held on the cases run, nothing is proved. Also: surfaces 8191..70000 px long in one direction, 100-300 coincident contours (256 among them on every run, 512 and 768 in the thorough tier), combs of 4-70 thin bars crossed by shallow slivers, outlines doubled and sides split by collinear vertices, and exact grid-preserving transforms (the model evaluated on the exactly transformed polygon).",
        note="Trusts the observation identity white-on-transparent alpha == coverage byte (all four channels are checked to agree), the i128 model in harness/src/checks/c01.rs, and leaves pixels with an edge crossing inside the fixed-point ambiguity band unasserted (counted in the evidence).",
        ref="DESIGN.md section 3, C01",
    ),
    "C02": dict(
        technique="online frame monitor on an instrumented DrawTarget: every pixel outside shape coverage, clip or dilated hull compared bit for bit before/after each call on canary destinations",
        text="Generated and directed scenes (all 28 modes, 6 source kinds, alpha, both AA modes, clip/layer stacks, transforms, every drawing entry point) run on the real DrawTarget; after every call each pixel of the surface and of every open layer that the shadow model places outside the shape, the clip or the surface must be bit-identical. Held on the scenes run.",
        note="Shape coverage comes from a probe render of the same shape (rasteriser factored out to C01/C04/C08); a rasteriser-independent dilated control hull frame and analytically known coverage (mask bytes, integer rects, layer rects) are asserted too. Layer buffers are read through the verif_layer hook.",
        ref="DESIGN.md section 3, C02",
    ),
    "C03": dict(
        technique="online formula monitor: per-pixel expected value from (source, destination, coverage, clip, mode) with exact end-point rules, 3 LSB tolerance between, locality and source-scaling rules",
        text="Every pixel touched by every call of generated scenes plus a pixel lab (mask() with all 256 coverage bytes; all 256 opacity bytes x 28 modes x 3 clip variants through layers, enumerated completely) is compared with the statement's compositing rule. Held on what was run.",
        note="sw_composite::blend::* is the formula of record; source colour and coverage are probed through the same library (their correctness belongs to C12/C13 and C01/C04/C08); tolerance 3 LSB where the statement leaves rounding open (largest deviation seen is reported).",
        ref="DESIGN.md section 3, C03",
    ),
    "C05": dict(
        technique="shadow clip-stack model + effective-clip probe after every push/pop, pop-restore and push-order differentials, unclipped-twin differential for rectangular clips",
        text="Random well-nested clip histories (rects and paths in every order, inverted/disjoint/oversized/off-surface rects, AA clip paths, interleaved transforms, layers and draws) with the observed effective clip checked against the model of the whole stack after every change; rect-clipped draws equal unclipped draws exactly inside the clip. Held on what was run. Also: clip paths pushed under singular transforms (they let nothing through), and the target's effective clip probed against a clip-only twin after every pop_layer that leaves clips in force on the surface.",
        note="Per-path coverage maps are probe renders of the pre-transformed path; the product band is ceil((paths-1)/2)+1 LSB. The effective clip is observed by a white fill on zeroed pixels (pixels and transform restored).",
        ref="DESIGN.md section 3, C05",
    ),
    "C06": dict(
        technique="step-wise layer-buffer monitor through the verif_layer hook plus an end-to-end isolated-group reference built with the public API only",
        text="Layer-heavy scenes (nesting to depth 3, opacity 0..1 and out of range/NaN, all 28 modes, layers under rect/path/empty/inverted/oversized clips, clear and every other call inside): every call must change only the innermost layer buffer per the compositing oracles, pop_layer must composite the buffer once; independently the group is rendered on a separate transparent surface and composited once and compared with the layered result. Held on what was run.",
        note="Same trusted base as C03 for the per-pixel rule. The end-to-end reference assumes clips pushed before the layer stay until after the pop (well-nested scenes); the step-wise monitor also runs templated scenes where a layer outlives its clip and surfaces above 65536 pixels. A wrong pixel in a layer buffer or in pop_layer's destination counts for C06 whichever rule it breaks.",
        ref="DESIGN.md section 3, C06",
    ),
    "C16": dict(
        technique="lock-step monitor over Path::flatten output with an f64 curve oracle (closest-point distance, parameter order, deviation), plus fill/hit-test agreement of the flattened path",
        text="Random paths in every op order (curves first, after MoveTo, directly after Close, consecutive Closes, coincident control points, coordinates to +-4000) and tolerances 1e-3..10: MoveTo/LineTo/Close preserved bit for bit and in order; each curve's polyline equals the curve flattened alone from its true start, its vertices lie within tolerance of the curve in parameter order, end exactly at the end point and stay within 8 x tolerance of the curve. Held on the paths run. Also: geometry of a few thousandths of a unit at tolerances down to 1e-8, curves needing 5 000-30 000 segments, a curve millions of units away before the others, subpaths starting where an earlier one started, far quadratic control points in the fill cross-check.",
        note="The number of vertices per curve is taken from flattening that curve alone (which also asserts context independence). Up to 48 evenly spaced vertices per curve get the closest-point check.",
        ref="DESIGN.md section 3, C16",
    ),
    "C17": dict(
        technique="exact integer reference (on-segment test and half-open crossing count) over grid polygons and grid query points, exhaustive small space, cross-check against fill",
        text="contains_point is compared with an exact i64 computation on grid polygons and query points chosen level with vertices, collinear with edges beyond their ends, on edges and on vertices; every quadrilateral on the 4x4 integer grid x 49 half-grid points x both rules is enumerated completely; curved paths are cross-checked against pixels deep inside painted / untouched areas. Held on what was run.",
        note="Grid coordinates keep contains_point's own f32 arithmetic exact. The fill cross-check only uses pixel centres more than 0.3 px from every segment (zero-area slivers run through untouched pixels).",
        ref="DESIGN.md section 3, C17",
    ),
    "C19": dict(
        technique="cross-view read/write monitor and PNG decode oracle; Miri run of the same workload for the unsafe re-slicing in the thorough tier",
        text="Word packing, byte order of get_data_u8, writes through each view read back through the others, from_vec/from_backing/into_vec/into_inner round trips and write_png (decoded with the png crate: 8-bit RGBA, size, row-major, alpha unchanged, colour = floor(c*255/a), transparent pixels passed through) on surfaces 0..17 x 0..9 with every valid (alpha, colour) pair of one channel. Held on what was run. Also: every word made of the bytes 0/1/127/128/254/255 as first, last and middle pixels, repeated exports with writes through every mutable view in between (also with a layer open), recycled vectors, file names that do not end in .png.",
        note="Little-endian machine assumed (as the statement does). PNG files go to /verif/.work and are removed.",
        ref="DESIGN.md section 3, C19",
    ),
    "C20": dict(
        technique="f64 evaluation of the ops returned by PathBuilder::rect/arc/finish and Path::transform",
        text="rect corners and op order exact; arc: initial LineTo to the start point, every sampled curve point at distance r within 0.5%, angle monotone in the sweep's direction, total angle = sweep clamped to one turn, end point as expected; transform: every point mapped bit for bit, kinds/order/winding kept; finish: ops in call order, NonZero. Held on the parameters run. Also: arcs chained on one circle, radii down to 7.6e-6, builder call sequences that name earlier points again (move_to onto the current point, a line back to the start before close, a rect at the end of a line).",
        note="Start angles limited to +-100 rad and angle checks skipped when the radius is below the f32 quantisation of the centre (no meaningful angles).",
        ref="DESIGN.md section 3, C20",
    ),
    "C18": dict(
        technique="online premultiplied-validity monitor on every buffer after every call, exhaustive colour-conversion enumeration",
        text="Every pixel of every buffer after every call of the scene and pixel-lab workloads (valid destinations and sources only) must satisfy r,g,b <= a; Color/from_unpremultiplied_argb are enumerated over all 65536 (alpha, channel) pairs. Held on what was run; one known finding in the dependency (BlendMode::Color) is reported as KNOWN-FINDING. Also: all 256 alpha bytes through the three surface blits, layers nested a dozen deep, text calls.",
        note="Runs in the val/rel builds where sw-composite returns the offending value instead of asserting; the known-finding signature requires mode Color and an invalid formula-of-record output for that exact (source, destination) pair.",
        ref="DESIGN.md section 3, C18",
    ),
    "C04": dict(
        technique="reference-model monitor: independently constructed stroke region (convex primitives in f64, mapped by the transform) evaluated on every pixel of generated strokes",
        text="Generated strokes (polylines and curves, open/closed, directed turning angles incl. 0/90/180 degrees, widths 0.3..40, 3 caps x 3 joins, miter limits on both sides of the switch-over, translation/rotation/scale/shear/mirror transforms, both AA modes) rendered white on transparent; pixels deep inside the region must be fully painted, pixels deep outside untouched (margin 0.5 px straight, 1 px otherwise); non-positive and NaN widths must paint nothing. Held on the strokes run. Also: strokes drawn under power-of-two user scales with the oracle unscaled, 100-513 passes over one segment, steps one f32 spacing long at 2^23/2^24, miter spikes thousands of pixels long, strokes 300-1500 units wide, strokes reaching in from outside under stretching transforms, subpaths that touch end to start, strokes 1500-9000 units wide of polylines that turn by 1e-4..4e-3 rad, straight strokes at user scales of 2^+-40..2^+-60, every other path rebuilt through the PathBuilder calls.",
        note="Containment is conservative (pixel disc inside one primitive / clear of all primitives); pixels near the boundary, miter joins within 3% of their switch-over and near-cusp vertices are not asserted (counted). For curved paths the polyline is Path::flatten() at the stroker's tolerance, except curves whose points share one x or y, which are straightened in closed form.",
        ref="DESIGN.md section 3, C04",
    ),
    "C08": dict(
        technique="reference-model monitor: f64 path interpreter, winding number and distance to the finely sampled outline at every pixel centre of generated curved fills and clip paths",
        text="Generated paths mixing move/line/quad/cubic/arc/close (looping, cusped, coincident control points, commands after close, missing MoveTo, control points out to +-3500) under invertible transforms, both rules and AA modes, as fills and as clip paths; every pixel more than 1 px from the exact outline must be 255 inside / 0 outside. Held on the paths run. Also: diagonal curves 800-7000 px long whose turning point lies within 1/256 of the parameter range from an end, almost straight cubics of the same length, and outlines (or full turns of arc) that end 1e-6..3e-4 px from their start next to a sample row with a second shape to their right.",
        note="Curves sampled at 256 steps in f64; in the mixed random paths arcs are taken through the control points PathBuilder::arc emitted (C20 owns their geometry); a separate workload of discs, pies and rings built with arc() is judged against the true circles, direction included. One known finding (shallow-hairpin-tip-overshoot: a few pixels beyond the tip of a level hairpin thousands of pixels long) is reported as KNOWN-FINDING by a signature computed from the path's own turning points; its directed case runs on every invocation.",
        ref="DESIGN.md section 3, C08",
    ),
    "C09": dict(
        technique="reference-model monitor: independent f64 arc-length dasher feeding the C04 region oracle, plus a polyline-level check of the private dash_path through the verif_dash_path hook",
        text="Generated dashed strokes (open/closed subpaths, arrays of 1..6 positive entries incl. entries longer than the path and odd lengths, offsets of both signs up to +-2e4, all caps/joins) are compared pixel by pixel with the region of the independently dashed pieces (0.75 px margin); dash_path's output must conserve the on-length, stay on the input path and have the expected number of connected pieces; non-positive totals must paint nothing. Held on the cases run. Also: whole-number rectangles with whole dash lengths (boundaries exactly on vertices, round caps and joins), spokes from one centre, closed polygons of 28-80 sides inside the first dash, dashes turning straight back, and whole-number geometry (axis-aligned and Pythagorean segments, closed and open) with dash entries taken from the segment lengths and offsets of -0.0 and exact multiples of the pattern length, for every cap and join; outlines that return to their start before Close, gaps of no length, entries whose sum is infinite in f32.",
        note="Cases with a dash boundary within 0.02 px of a vertex are skipped unless caps and joins are Round (cap orientation would flip on f32 rounding); near the two ends of a subpath they are skipped for Round too (a sliver there is a whole dot); neither applies to the whole-number workloads, where the arithmetic is exact. The guard includes boundaries up to 1 px beyond either end of a subpath. Larger offsets are left to C07 (f32 period rounding moves the phase).",
        ref="DESIGN.md section 3, C09",
    ),
    "C07": dict(
        technique="no-panic/no-abort/progress monitor over grammar-based boundary-value fuzzing in worker subprocesses (chk build: overflow checks and debug assertions on in every crate), heartbeat supervisor, iteration-bound hooks on the dash loops; AddressSanitizer build in the thorough tier",
        text="Generated call sequences over the whole public API with boundary-biased values inside the stated domain run in worker subprocesses under catch_unwind; a panic, a dead worker (abort/OOM), an iteration-bound overrun or a case that finishes in neither of two isolated re-runs is a violation. Held on the sequences run; two known findings in the dependency sw-composite (non-separable blend modes) are reported as KNOWN-FINDING by exact signature.",
        note="Domain decisions where the statement is silent are listed in the evidence (assumptions): transform scales 1e-4..1e4 or singular, increasing gradient stop positions, valid premultiplied inputs, <= 5000 dashes in routine cases, surfaces <= 64 px; text calls within FreeType's domain (size 1..1000, 1..300 device px, axes within 16x of each other).",
        ref="DESIGN.md section 3, C07",
    ),
    "C10": dict(
        technique="fresh-twin history differential (exact) over long random call histories, steered by the verif_state hook; the same histories under AddressSanitizer and Miri in the thorough tier",
        text="After every call of long random histories on one DrawTarget the call is replayed on a fresh target holding the same pixels, transform and clip stack and the pixels are compared bit for bit; histories are biased towards no-op draws and towards followers that make leftover cursor/rasteriser state visible. Held on the histories run; thorough adds ASan and Miri runs of the same workload (a sanitizer report is a violation). Also: surface blits (copy/blend_surface) and clear-blit-clear patterns, draws 40000 px off the surface, a palette of recurring solid colours, the same clip path pushed again, clip paths that outlive the layer they were pushed in.",
        note="The twin re-pushes clip paths pre-transformed under the identity (relies on C11's bit-identity). Layer groups are compared as one unit. One history in eight builds and uses every twin in a fresh thread (per-thread memory of the library is empty there); histories repeat the previous call with only the transform, or one ingredient of the source, changed. The hook never produces a verdict.",
        ref="DESIGN.md section 3, C10",
    ),
    "C11": dict(
        technique="exact differentials: pre-transformed path vs transform on the target; identity vs T for device-space calls; singular-T no-op monitor; transform-preservation monitor",
        text="fill under T vs fill of Path::transform(T) under the identity must be bit-identical (all op kinds, AA modes, under clips and in layers); singular T must leave every pixel unchanged for fill/stroke/fill_rect/draw_image; push_clip_rect, mask(solid), copy_surface, blend_surface* must not depend on T; clear/pop_layer must leave get_transform() bitwise unchanged. Sources and strokes under T are judged by the C12/C13/C04 oracles, which draw random transforms. Held on what was run. Also: straight shapes in solid colours at user scales of 2^-66..2^60 (determinants down to subnormal), a tiny transform replaced at once by another, and curved strokes under scales that stretch one axis 16..64 times more than the other.",
        note="mask() with a solid source under a singular transform is not asserted (the statement is silent on which clause wins). The C13/C12 oracles are also run from this check under a current transform in every case (well-conditioned matrices) and count for C11. Power-of-two user-space scalings must give bit-identical pictures (solid, linear, radial and image sources); text under a scale is compared with the same text at the scaled size by ink and centre of gravity.",
        ref="DESIGN.md section 3, C11",
    ),
    "C12": dict(
        technique="reference-model monitor: analytic gradient parameter and stop interpolation in f64 evaluated at T^-1 of every pixel centre of generated gradient fills",
        text="Generated linear/radial/two-circle/sweep gradients (1..5 increasing stops, three spreads, alpha, geometry inside/across/far outside the surface, random invertible transforms) observed through a full-surface Src fill; every channel must lie within 4/255 of the reference colour range for t within 3/255 (+|t|/255 for two-circle and sweep) of the pixel's t, folded through the spread. Held on what was run; sweeps with a non-zero start angle hit a known finding in sw-composite (exact signature). Also: gradients a few pixels long thousands of lengths away, sweeps of more than one turn, the current transform equal to the gradient's own frame, the same gradient observed through mask(). Also: the same gradient drawn first under a transform that differs by a vertical or horizontal shift only, gradients drawn under user scales of 2^20..2^34, and ramps returning to their first colour inside surfaces 40..64 px wide.",
        note="Pixels within 1.5 px of a sweep centre, on the sweep seam or at a two-circle double root are not asserted. The largest excess over the reference interval seen is reported (below 3 LSB on the unchanged tree).",
        ref="DESIGN.md section 3, C12",
    ),
    "C13": dict(
        technique="reference-model monitor: f64 image sampler (nearest texel / 4-bit bilinear weights, pad/repeat) evaluated at M(pixel centre) of generated image fills and draw_image calls",
        text="Generated images with position-encoding texels, both extend modes and filters, alpha, source and current transforms (integer/fractional/half-texel translations, scales incl. negative, rotations, far beyond the edges): Nearest must return exactly the texel under the pixel centre, Bilinear the 4-bit-weighted interpolation within 1 LSB and exactly the texel at texel centres; draw_image_at/with_size_at are checked against the statement. Held on what was run. Also: exact mirror transforms, pixel slices longer than the image, surfaces 300-900 px wide under a 1/64..1/128 scale with a compensating source translation, strongly minifying current transforms cancelled by the source transform, whole-number translations of 2^20..2^24 for the whole-number route, surfaces 257-1065 px wide, observation through SrcOver as well as Src, and draw_image_at beyond pixel 32760 on surfaces up to 70000 px long.",
        note="Samples within the 16.16 conversion error of a texel or weight boundary accept either neighbour (counted); the band is zero for exact integer translations, so the integer fast paths must be exact.",
        ref="DESIGN.md section 3, C13",
    ),
    "C14": dict(
        technique="exact differential between the optimised and the general route on identical canary destinations",
        text="fill_rect (integer rects incl. zero/negative/off-surface) vs fill(PathBuilder::rect), with vs without a covering clip rect, clear with vs without a covering clip, draw_image_at vs filling the image rectangle: pixel buffers must be identical for all 28 modes, all source kinds, alpha and both AA modes. Held on the pairs run. Also: rectangles reaching 8192..32000 px beyond the surface, surface-sized images inside layers, gradient variants built by hand with arbitrary matrices, cone-shaped two-circle gradients with opaque stops.",
        note="Both routes run in the same library; the check decides agreement, not correctness of either (that is C03's job).",
        ref="DESIGN.md section 3, C14",
    ),
    "C15": dict(
        technique="reference block-transfer model evaluated on every destination pixel; small space enumerated completely in the thorough tier; ASan and Miri runs for the memory side",
        text="copy_surface, blend_surface and blend_surface_with_alpha are compared per destination pixel with 'source pixel src_rect.min + (q - dst) lands on q iff it lies in src_rect and in the source'; sizes 0..3, rect corners in [-2,5], dst in [-4,5] (sampled in quick, all 3.1e8 combinations in thorough) plus larger and far-away cases; transform, clip and an open layer on the destination must be ignored. Held on what was run. Also: source rectangles wider than i32::MAX whose far corner still lands the block, sources with an open layer, clip or transform of their own, sources built from longer recycled vectors. Sources also with whole rows of black at some opacity, transparent, or one colour.",
        note="blend_surface is exact against the formula of record; blend_surface_with_alpha uses the C03 SrcOver rule (3 LSB between the exact end points).",
        ref="DESIGN.md section 3, C15",
    ),
}

NOT_BUILT_REASON = "check not built yet in this round (planned, see DESIGN.md section 3); not claimed"

ALL = ["C%02d" % i for i in range(1, 21)]


def main():
    m = {
        "version": 1,
        "setup_cmd": "./check --setup",
        "hooks": {
            "guard": "raqote_verif",
            "enable": "RUSTFLAGS=\"--cfg raqote_verif --check-cfg=cfg(raqote_verif)\" (set by ./check for every build of the harness, which path-depends on /repo)",
            "baseline_off_cmd": "cd /repo && cargo test --workspace --no-fail-fast --offline",
            "source_commits": HOOK_COMMITS,
            "add_only": True,
        },
        "engines": [
            {
                "name": "rv",
                "path": "harness/",
                "serves_properties": sorted(CHECKS.keys()),
                "kind_free_text": "Rust harness linked against /repo's working tree: workload generators, reference-model oracles and online monitors observing real executions of raqote; Miri and AddressSanitizer builds of the same workloads for the memory side",
            }
        ],
        "checks": [],
        "notes": "Runtime monitoring only. Every check rebuilds the harness against /repo's working tree (cargo fingerprints the path dependency) with the hooks enabled. Exit 0 = held on everything explored, 1 = violation with replay file, 2 = inconclusive (build failure, watchdog). Known findings are listed in known_findings.json.",
        "not_applicable": [],
    }
    for pid in ALL:
        if pid in CHECKS:
            c = CHECKS[pid]
            m["checks"].append(
                {
                    "property_id": pid,
                    "quick_cmd": "./check %s quick" % pid,
                    "thorough_cmd": "./check %s thorough" % pid,
                    "evidence_file": "evidence/%s.json" % pid,
                    "replay_cmd_template": "./check %s --replay {path}" % pid,
                    "engine": "rv",
                    "level_claimed": {"category": "exploration", "text": c["text"], "design_ref": c["ref"]},
                    "level_note": c["note"],
                    "technique": c["technique"],
                }
            )
        else:
            m["not_applicable"].append({"property_id": pid, "reason": NOT_BUILT_REASON})
    with open("/verif/MANIFEST.json", "w") as f:
        json.dump(m, f, indent=1)
        f.write("\n")


if __name__ == "__main__":
    main()
