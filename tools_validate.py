#!/usr/bin/env python3
"""Validates MANIFEST.json and evidence/*.json against the schemas (uses the tooling venv's jsonschema)."""
import json, sys, glob
import jsonschema
ok = True
ms = json.load(open('/root/.vp/MANIFEST.schema.json'))
es = json.load(open('/root/.vp/EVIDENCE.schema.json'))
try:
    jsonschema.validate(json.load(open('/verif/MANIFEST.json')), ms); print('MANIFEST ok')
except Exception as e:
    ok = False; print('MANIFEST INVALID', e)
for f in sorted(glob.glob('/verif/evidence/*.json')):
    try:
        jsonschema.validate(json.load(open(f)), es); print(f, 'ok')
    except Exception as e:
        ok = False; print(f, 'INVALID', str(e)[:300])
sys.exit(0 if ok else 1)
