#!/bin/bash
# sensitivity test: temporarily reverse one fix commit in /repo's working tree, run checks, restore.
# usage: tools_revert_test.sh <commit> <prop> [<prop>...]
c=$1; shift
cd /repo || exit 1
git diff --quiet || { echo "/repo working tree not clean"; exit 1; }
git show $c -- src | patch -R -p1 -s --no-backup-if-mismatch -F3 || { echo "cannot reverse $c"; git checkout -- src; rm -f src/*.rej src/*.orig; exit 1; }
for p in "$@"; do
  out=$(cd /verif && ./check $p quick 2>&1)
  rc=$?
  echo "== reversed $c, $p: exit $rc"; echo "$out" | grep -E "VIOLATION|KNOWN|INCONCLUSIVE" | head -3; echo "$out" | grep -E "^  C[0-9]+/" | head -2 | cut -c1-300
done
git checkout -- src; rm -f src/*.rej src/*.orig
