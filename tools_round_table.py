#!/usr/bin/env python3
# prints the DESIGN.md table of one round of seeded changes: tools_round_table.py <regex on seed ids>
import json,sys,glob,os,re
pat=sys.argv[-1]
reg={}
for f in ['seeded/REGRESSION.json','seeded/REGRESSION-partial.json']:
    if os.path.exists(f):
        try:
            r=json.load(open(f)); reg.update(r.get('results',r))
        except Exception as e: pass
rows=[]
for d in sorted(glob.glob('seeded/*')):
    sid=os.path.basename(d)
    if not re.search(pat,sid): continue
    m=json.load(open(d+'/meta.json'))
    res=reg.get(sid,{})
    caught=[p for p,v in res.items() if isinstance(v,dict) and v.get('exit')==1 and v.get('violation_lines',0)>0]
    own=sid[:3]
    col='' if caught==[own] else ', '.join(caught)
    if 'neutralised' in m: col='(made harmless by a repair)'
    summ=m['summary'].replace('|','/').replace('\n',' ')[:230]
    rows.append("| %s | %s | %s |"%(sid,summ,col))
print("| seed | change (agent's summary, shortened) | caught by |\n|------|--------------------------------------|-----------|")
print("\n".join(rows))
