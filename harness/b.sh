#!/bin/bash
# dev helper: b.sh <mode> ; builds the harness in a mode with the hooks on, shows only rv's diagnostics
mode=${1:-val}
cd /verif/harness
RUSTFLAGS="--cfg raqote_verif --check-cfg=cfg(raqote_verif)" RV_BUILD_MODE=$mode CARGO_NET_OFFLINE=true cargo build --offline --profile $mode 2>&1 | grep -E "^(warning: unused|error)" -A 12 | head -${2:-100}
