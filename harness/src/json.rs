//! Minimal JSON value, serializer and parser (no external crates are available for this).

use std::collections::BTreeMap;
use std::fmt::Write;

#[derive(Clone, Debug, PartialEq)]
pub enum J {
    Null,
    Bool(bool),
    Int(i64),
    Num(f64),
    Str(String),
    Arr(Vec<J>),
    Obj(Vec<(String, J)>),
}

impl J {
    pub fn obj() -> J {
        J::Obj(Vec::new())
    }
    pub fn set(&mut self, k: &str, v: J) -> &mut J {
        if let J::Obj(o) = self {
            if let Some(e) = o.iter_mut().find(|e| e.0 == k) {
                e.1 = v;
            } else {
                o.push((k.to_string(), v));
            }
        }
        self
    }
    pub fn get(&self, k: &str) -> Option<&J> {
        if let J::Obj(o) = self {
            o.iter().find(|e| e.0 == k).map(|e| &e.1)
        } else {
            None
        }
    }
    pub fn as_str(&self) -> Option<&str> {
        if let J::Str(s) = self { Some(s) } else { None }
    }
    pub fn as_i64(&self) -> Option<i64> {
        match self {
            J::Int(i) => Some(*i),
            J::Num(f) => Some(*f as i64),
            _ => None,
        }
    }
    pub fn as_arr(&self) -> Option<&Vec<J>> {
        if let J::Arr(a) = self { Some(a) } else { None }
    }
    pub fn s(v: &str) -> J {
        J::Str(v.to_string())
    }
    pub fn from_map(m: &BTreeMap<String, u64>) -> J {
        J::Obj(m.iter().map(|(k, v)| (k.clone(), J::Int(*v as i64))).collect())
    }
    pub fn from_fmap(m: &BTreeMap<String, f64>) -> J {
        J::Obj(m.iter().map(|(k, v)| (k.clone(), J::Num(*v))).collect())
    }

    pub fn to_string_pretty(&self) -> String {
        let mut s = String::new();
        self.write(&mut s, 0);
        s.push('\n');
        s
    }

    fn write(&self, out: &mut String, ind: usize) {
        match self {
            J::Null => out.push_str("null"),
            J::Bool(b) => out.push_str(if *b { "true" } else { "false" }),
            J::Int(i) => {
                let _ = write!(out, "{}", i);
            }
            J::Num(f) => {
                if f.is_finite() {
                    if *f == f.trunc() && f.abs() < 1e15 {
                        let _ = write!(out, "{:.1}", f);
                    } else {
                        let _ = write!(out, "{}", f);
                    }
                } else {
                    out.push_str("null");
                }
            }
            J::Str(s) => write_str(out, s),
            J::Arr(a) => {
                if a.is_empty() {
                    out.push_str("[]");
                    return;
                }
                out.push_str("[\n");
                for (i, v) in a.iter().enumerate() {
                    pad(out, ind + 1);
                    v.write(out, ind + 1);
                    if i + 1 < a.len() {
                        out.push(',');
                    }
                    out.push('\n');
                }
                pad(out, ind);
                out.push(']');
            }
            J::Obj(o) => {
                if o.is_empty() {
                    out.push_str("{}");
                    return;
                }
                out.push_str("{\n");
                for (i, (k, v)) in o.iter().enumerate() {
                    pad(out, ind + 1);
                    write_str(out, k);
                    out.push_str(": ");
                    v.write(out, ind + 1);
                    if i + 1 < o.len() {
                        out.push(',');
                    }
                    out.push('\n');
                }
                pad(out, ind);
                out.push('}');
            }
        }
    }
}

fn pad(out: &mut String, n: usize) {
    for _ in 0..n {
        out.push_str(" ");
    }
}

fn write_str(out: &mut String, s: &str) {
    out.push('"');
    for c in s.chars() {
        match c {
            '"' => out.push_str("\\\""),
            '\\' => out.push_str("\\\\"),
            '\n' => out.push_str("\\n"),
            '\r' => out.push_str("\\r"),
            '\t' => out.push_str("\\t"),
            c if (c as u32) < 0x20 => {
                let _ = write!(out, "\\u{:04x}", c as u32);
            }
            c => out.push(c),
        }
    }
    out.push('"');
}

pub fn parse(text: &str) -> Result<J, String> {
    let b = text.as_bytes();
    let mut p = 0usize;
    let v = parse_value(b, &mut p)?;
    skip_ws(b, &mut p);
    if p != b.len() {
        return Err(format!("trailing data at {}", p));
    }
    Ok(v)
}

fn skip_ws(b: &[u8], p: &mut usize) {
    while *p < b.len() && (b[*p] as char).is_ascii_whitespace() {
        *p += 1;
    }
}

fn parse_value(b: &[u8], p: &mut usize) -> Result<J, String> {
    skip_ws(b, p);
    if *p >= b.len() {
        return Err("unexpected end".into());
    }
    match b[*p] {
        b'{' => {
            *p += 1;
            let mut o = Vec::new();
            skip_ws(b, p);
            if *p < b.len() && b[*p] == b'}' {
                *p += 1;
                return Ok(J::Obj(o));
            }
            loop {
                skip_ws(b, p);
                let k = parse_string(b, p)?;
                skip_ws(b, p);
                if *p >= b.len() || b[*p] != b':' {
                    return Err(format!("expected ':' at {}", p));
                }
                *p += 1;
                let v = parse_value(b, p)?;
                o.push((k, v));
                skip_ws(b, p);
                if *p < b.len() && b[*p] == b',' {
                    *p += 1;
                    continue;
                }
                if *p < b.len() && b[*p] == b'}' {
                    *p += 1;
                    return Ok(J::Obj(o));
                }
                return Err(format!("expected ',' or '}}' at {}", p));
            }
        }
        b'[' => {
            *p += 1;
            let mut a = Vec::new();
            skip_ws(b, p);
            if *p < b.len() && b[*p] == b']' {
                *p += 1;
                return Ok(J::Arr(a));
            }
            loop {
                let v = parse_value(b, p)?;
                a.push(v);
                skip_ws(b, p);
                if *p < b.len() && b[*p] == b',' {
                    *p += 1;
                    continue;
                }
                if *p < b.len() && b[*p] == b']' {
                    *p += 1;
                    return Ok(J::Arr(a));
                }
                return Err(format!("expected ',' or ']' at {}", p));
            }
        }
        b'"' => Ok(J::Str(parse_string(b, p)?)),
        b't' if b[*p..].starts_with(b"true") => {
            *p += 4;
            Ok(J::Bool(true))
        }
        b'f' if b[*p..].starts_with(b"false") => {
            *p += 5;
            Ok(J::Bool(false))
        }
        b'n' if b[*p..].starts_with(b"null") => {
            *p += 4;
            Ok(J::Null)
        }
        _ => {
            let start = *p;
            while *p < b.len() && matches!(b[*p], b'-' | b'+' | b'.' | b'e' | b'E' | b'0'..=b'9') {
                *p += 1;
            }
            let t = std::str::from_utf8(&b[start..*p]).map_err(|e| e.to_string())?;
            if let Ok(i) = t.parse::<i64>() {
                Ok(J::Int(i))
            } else {
                t.parse::<f64>().map(J::Num).map_err(|_| format!("bad number '{}' at {}", t, start))
            }
        }
    }
}

fn parse_string(b: &[u8], p: &mut usize) -> Result<String, String> {
    if *p >= b.len() || b[*p] != b'"' {
        return Err(format!("expected string at {}", p));
    }
    *p += 1;
    let mut out: Vec<u8> = Vec::new();
    while *p < b.len() {
        match b[*p] {
            b'"' => {
                *p += 1;
                return String::from_utf8(out).map_err(|e| e.to_string());
            }
            b'\\' => {
                *p += 1;
                if *p >= b.len() {
                    break;
                }
                match b[*p] {
                    b'n' => out.push(b'\n'),
                    b't' => out.push(b'\t'),
                    b'r' => out.push(b'\r'),
                    b'b' => out.push(8),
                    b'f' => out.push(12),
                    b'u' => {
                        let h = std::str::from_utf8(&b[*p + 1..*p + 5]).map_err(|e| e.to_string())?;
                        let c = u32::from_str_radix(h, 16).map_err(|e| e.to_string())?;
                        let ch = char::from_u32(c).unwrap_or('?');
                        let mut buf = [0u8; 4];
                        out.extend_from_slice(ch.encode_utf8(&mut buf).as_bytes());
                        *p += 4;
                    }
                    c => out.push(c),
                }
                *p += 1;
            }
            c => {
                out.push(c);
                *p += 1;
            }
        }
    }
    Err("unterminated string".into())
}
