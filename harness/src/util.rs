//! Shared helpers around the raqote API.

use crate::json::J;
use crate::prng::Rng;
use raqote::*;

pub const MODES: [(BlendMode, &str); 28] = [
    (BlendMode::Dst, "Dst"),
    (BlendMode::Src, "Src"),
    (BlendMode::Clear, "Clear"),
    (BlendMode::SrcOver, "SrcOver"),
    (BlendMode::DstOver, "DstOver"),
    (BlendMode::SrcIn, "SrcIn"),
    (BlendMode::DstIn, "DstIn"),
    (BlendMode::SrcOut, "SrcOut"),
    (BlendMode::DstOut, "DstOut"),
    (BlendMode::SrcAtop, "SrcAtop"),
    (BlendMode::DstAtop, "DstAtop"),
    (BlendMode::Xor, "Xor"),
    (BlendMode::Add, "Add"),
    (BlendMode::Screen, "Screen"),
    (BlendMode::Overlay, "Overlay"),
    (BlendMode::Darken, "Darken"),
    (BlendMode::Lighten, "Lighten"),
    (BlendMode::ColorDodge, "ColorDodge"),
    (BlendMode::ColorBurn, "ColorBurn"),
    (BlendMode::HardLight, "HardLight"),
    (BlendMode::SoftLight, "SoftLight"),
    (BlendMode::Difference, "Difference"),
    (BlendMode::Exclusion, "Exclusion"),
    (BlendMode::Multiply, "Multiply"),
    (BlendMode::Hue, "Hue"),
    (BlendMode::Saturation, "Saturation"),
    (BlendMode::Color, "Color"),
    (BlendMode::Luminosity, "Luminosity"),
];

pub fn mode_name(m: BlendMode) -> &'static str {
    MODES.iter().find(|x| x.0 == m).map(|x| x.1).unwrap_or("?")
}

pub fn is_nonseparable(m: BlendMode) -> bool {
    matches!(m, BlendMode::Hue | BlendMode::Saturation | BlendMode::Color | BlendMode::Luminosity)
}

/// The formula of record for a blend mode: sw-composite's public implementation.
pub fn blend_of_record(m: BlendMode) -> fn(u32, u32) -> u32 {
    use sw_composite::blend::*;
    match m {
        BlendMode::Dst => Dst::blend,
        BlendMode::Src => Src::blend,
        BlendMode::Clear => Clear::blend,
        BlendMode::SrcOver => SrcOver::blend,
        BlendMode::DstOver => DstOver::blend,
        BlendMode::SrcIn => SrcIn::blend,
        BlendMode::DstIn => DstIn::blend,
        BlendMode::SrcOut => SrcOut::blend,
        BlendMode::DstOut => DstOut::blend,
        BlendMode::SrcAtop => SrcAtop::blend,
        BlendMode::DstAtop => DstAtop::blend,
        BlendMode::Xor => Xor::blend,
        BlendMode::Add => Add::blend,
        BlendMode::Screen => Screen::blend,
        BlendMode::Overlay => Overlay::blend,
        BlendMode::Darken => Darken::blend,
        BlendMode::Lighten => Lighten::blend,
        BlendMode::ColorDodge => ColorDodge::blend,
        BlendMode::ColorBurn => ColorBurn::blend,
        BlendMode::HardLight => HardLight::blend,
        BlendMode::SoftLight => SoftLight::blend,
        BlendMode::Difference => Difference::blend,
        BlendMode::Exclusion => Exclusion::blend,
        BlendMode::Multiply => Multiply::blend,
        BlendMode::Hue => Hue::blend,
        BlendMode::Saturation => Saturation::blend,
        BlendMode::Color => Color::blend,
        BlendMode::Luminosity => Luminosity::blend,
    }
}

#[inline]
pub fn ch(p: u32) -> [i32; 4] {
    [(p >> 24) as i32, ((p >> 16) & 0xff) as i32, ((p >> 8) & 0xff) as i32, (p & 0xff) as i32]
}

#[inline]
pub fn pack(a: u32, r: u32, g: u32, b: u32) -> u32 {
    (a << 24) | (r << 16) | (g << 8) | b
}

#[inline]
pub fn valid_premul(p: u32) -> bool {
    let c = ch(p);
    c[1] <= c[0] && c[2] <= c[0] && c[3] <= c[0]
}

pub fn hex(p: u32) -> String {
    format!("{:#010x}", p)
}

/// a random valid premultiplied pixel, biased towards the interesting alphas
pub fn premul_pixel(rng: &mut Rng) -> u32 {
    let a = rng.byte_biased() as u32;
    let mut c = [0u32; 3];
    for v in c.iter_mut() {
        *v = match rng.below(6) {
            0 => 0,
            1 => a,
            _ => rng.below(a as u64 + 1) as u32,
        };
    }
    pack(a, c[0], c[1], c[2])
}

/// Canary noise: valid premultiplied pixels, different for (nearly) every position, so that
/// a stray write, a wrong row or a wrong span length changes some value.
pub fn canary(rng: &mut Rng, n: usize) -> Vec<u32> {
    let mut v = Vec::with_capacity(n);
    for i in 0..n {
        let a = match rng.below(10) {
            0 => 255,
            1 => 0,
            _ => 32 + rng.below(224) as u32,
        };
        let r = if a == 0 { 0 } else { (i as u32 * 37 + 11 + rng.below(7) as u32) % (a + 1) };
        let g = if a == 0 { 0 } else { rng.below(a as u64 + 1) as u32 };
        let b = if a == 0 { 0 } else { (i as u32 * 101 + 3) % (a + 1) };
        v.push(pack(a, r, g, b));
    }
    v
}

/// Piecewise-constant destination with few distinct values (many pixels share the same inputs).
pub fn patchwork(rng: &mut Rng, w: usize, h: usize) -> Vec<u32> {
    let k = 2 + rng.below(3) as usize;
    let vals: Vec<u32> = (0..k).map(|_| premul_pixel(rng)).collect();
    let bw = 1 + rng.below(3) as usize;
    let mut v = Vec::with_capacity(w * h);
    for y in 0..h {
        for x in 0..w {
            v.push(vals[((x / bw) + (y / bw) * 2) % k]);
        }
    }
    v
}

pub fn solid(p: u32) -> SolidSource {
    let c = ch(p);
    SolidSource { a: c[0] as u8, r: c[1] as u8, g: c[2] as u8, b: c[3] as u8 }
}

pub const WHITE: SolidSource = SolidSource { r: 255, g: 255, b: 255, a: 255 };

pub fn opts(mode: BlendMode, alpha: f32, aa: bool) -> DrawOptions {
    DrawOptions { blend_mode: mode, alpha, antialias: if aa { AntialiasMode::Gray } else { AntialiasMode::None } }
}

pub fn path_from_ops(ops: Vec<PathOp>, winding: Winding) -> Path {
    Path { ops, winding }
}

pub fn fmt_f(v: f32) -> String {
    // shortest representation that round-trips
    format!("{:?}", v)
}

pub fn path_str(p: &Path) -> String {
    let mut s = String::new();
    for op in &p.ops {
        match op {
            PathOp::MoveTo(p) => s.push_str(&format!("M {} {} ", fmt_f(p.x), fmt_f(p.y))),
            PathOp::LineTo(p) => s.push_str(&format!("L {} {} ", fmt_f(p.x), fmt_f(p.y))),
            PathOp::QuadTo(c, p) => s.push_str(&format!("Q {} {} {} {} ", fmt_f(c.x), fmt_f(c.y), fmt_f(p.x), fmt_f(p.y))),
            PathOp::CubicTo(c1, c2, p) => s.push_str(&format!("C {} {} {} {} {} {} ", fmt_f(c1.x), fmt_f(c1.y), fmt_f(c2.x), fmt_f(c2.y), fmt_f(p.x), fmt_f(p.y))),
            PathOp::Close => s.push_str("Z "),
        }
    }
    s.push_str(match p.winding {
        Winding::NonZero => "(NonZero)",
        Winding::EvenOdd => "(EvenOdd)",
    });
    s
}

pub fn transform_str(t: &Transform) -> String {
    format!("[{} {} {} {} {} {}]", fmt_f(t.m11), fmt_f(t.m12), fmt_f(t.m21), fmt_f(t.m22), fmt_f(t.m31), fmt_f(t.m32))
}

pub fn pixels_json(v: &[u32]) -> J {
    J::Arr(v.iter().map(|p| J::s(&hex(*p))).collect())
}

/// f64 version of a Transform for the oracles
#[derive(Clone, Copy, Debug)]
pub struct T64 {
    pub a: f64,
    pub b: f64,
    pub c: f64,
    pub d: f64,
    pub e: f64,
    pub f: f64,
}

impl T64 {
    pub fn from(t: &Transform) -> T64 {
        T64 { a: t.m11 as f64, b: t.m12 as f64, c: t.m21 as f64, d: t.m22 as f64, e: t.m31 as f64, f: t.m32 as f64 }
    }
    pub fn identity() -> T64 {
        T64 { a: 1., b: 0., c: 0., d: 1., e: 0., f: 0. }
    }
    pub fn apply(&self, x: f64, y: f64) -> (f64, f64) {
        (x * self.a + y * self.c + self.e, x * self.b + y * self.d + self.f)
    }
    pub fn det(&self) -> f64 {
        self.a * self.d - self.b * self.c
    }
    pub fn inverse(&self) -> Option<T64> {
        let det = self.det();
        if det == 0. || !det.is_finite() {
            return None;
        }
        let id = 1. / det;
        Some(T64 {
            a: self.d * id,
            b: -self.b * id,
            c: -self.c * id,
            d: self.a * id,
            e: (self.c * self.f - self.d * self.e) * id,
            f: (self.b * self.e - self.a * self.f) * id,
        })
    }
    /// self then other
    pub fn then(&self, o: &T64) -> T64 {
        T64 {
            a: self.a * o.a + self.b * o.c,
            b: self.a * o.b + self.b * o.d,
            c: self.c * o.a + self.d * o.c,
            d: self.c * o.b + self.d * o.d,
            e: self.e * o.a + self.f * o.c + o.e,
            f: self.e * o.b + self.f * o.d + o.f,
        }
    }
    pub fn max_scale(&self) -> f64 {
        // largest singular value
        let (a, b, c, d) = (self.a, self.b, self.c, self.d);
        let s1 = a * a + b * b + c * c + d * d;
        let s2 = ((a * a + b * b - c * c - d * d).powi(2) + 4. * (a * c + b * d).powi(2)).sqrt();
        ((s1 + s2) / 2.).sqrt()
    }
}

/// A random transform for the drawing checks: `kind` picks the family.
/// Matrices that almost belong to a simpler class than they do - what a fast-path test that looks at too few
/// entries mistakes for a translation, an integer translation or the identity: a unit diagonal with a shear on
/// one side only, entries within 1e-3 of the identity, exact quarter turns and mirrors with whole translations.
pub fn special_transform(rng: &mut Rng, w: f64, h: f64) -> Transform {
    let ti = |rng: &mut Rng| rng.int(-3, 3) as f32;
    let tf = |rng: &mut Rng| if rng.chance(0.5) { rng.int(-3, 3) as f32 } else { rng.range(-3., 3.) as f32 };
    let sh = |rng: &mut Rng| *rng.pick(&[0.5f32, -0.5, 0.25, 1.0, -1.0, 0.3, -0.7]);
    match rng.below(8) {
        0 => Transform::new(1., 0., sh(rng), 1., ti(rng), ti(rng)),
        1 => Transform::new(1., sh(rng), 0., 1., ti(rng), ti(rng)),
        2 => Transform::new(1., 0., sh(rng), 1., tf(rng), tf(rng)),
        3 => Transform::new(1., sh(rng), 0., 1., tf(rng), tf(rng)),
        4 => {
            let e = |rng: &mut Rng| *rng.pick(&[0.0f32, 0.00075, -0.0005, 0.0009, 0.0001]);
            Transform::new(1. + e(rng), e(rng), e(rng), 1. + e(rng), if rng.chance(0.5) { 0. } else { ti(rng) }, 0.)
        }
        5 => {
            // exact quarter turn about the centre of the surface (whole translation when w and h are even)
            let (cx, cy) = ((w / 2.).floor() as f32, (h / 2.).floor() as f32);
            Transform::translation(-cx, -cy).then(&Transform::new(0., 1., -1., 0., 0., 0.)).then_translate(euclid::vec2(cx, cy))
        }
        6 => Transform::new(-1., 0., 0., 1., w.floor() as f32, ti(rng)),
        _ => Transform::new(1., 0., 0., 1., ti(rng), ti(rng) + *rng.pick(&[0.5f32, 0.25, 0.75])),
    }
}

pub fn random_transform(rng: &mut Rng, w: f64, h: f64) -> Transform {
    let cx = w / 2.;
    let cy = h / 2.;
    if rng.chance(0.1) {
        return special_transform(rng, w, h);
    }
    match rng.below(8) {
        0 => Transform::identity(),
        1 => Transform::translation(rng.int(-3, 3) as f32, rng.int(-3, 3) as f32),
        2 => Transform::translation(rng.range(-3., 3.) as f32, rng.range(-3., 3.) as f32),
        3 => {
            // rotation about the centre
            let a = rng.range(0., std::f64::consts::TAU);
            Transform::translation(-cx as f32, -cy as f32)
                .then_rotate(euclid::Angle::radians(a as f32))
                .then_translate(euclid::vec2(cx as f32, cy as f32))
        }
        4 => Transform::scale(rng.range(0.3, 3.) as f32, rng.range(0.3, 3.) as f32),
        5 => {
            // shear
            Transform::new(1., rng.range(-1., 1.) as f32, rng.range(-1., 1.) as f32, 1., rng.range(-2., 2.) as f32, rng.range(-2., 2.) as f32)
        }
        6 => {
            // mirror
            let sx = if rng.chance(0.5) { -1. } else { 1. };
            let sy = if sx > 0. || rng.chance(0.5) { -1. } else { 1. };
            Transform::translation(-cx as f32, -cy as f32).then_scale(sx, sy).then_translate(euclid::vec2(cx as f32, cy as f32))
        }
        _ => {
            let a = rng.range(0., std::f64::consts::TAU);
            Transform::translation(-cx as f32, -cy as f32)
                .then_rotate(euclid::Angle::radians(a as f32))
                .then_scale(rng.range(0.5, 2.) as f32, rng.range(0.5, 2.) as f32)
                .then_translate(euclid::vec2((cx + rng.range(-2., 2.)) as f32, (cy + rng.range(-2., 2.)) as f32))
        }
    }
}
