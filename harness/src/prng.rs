//! Deterministic PRNG. Every case of every check derives its own generator from
//! (VERIF_SEED, stream name, case index) so that a single case can be replayed alone.

#[derive(Clone)]
pub struct Rng {
    s: [u64; 4],
}

fn splitmix(x: &mut u64) -> u64 {
    *x = x.wrapping_add(0x9E3779B97F4A7C15);
    let mut z = *x;
    z = (z ^ (z >> 30)).wrapping_mul(0xBF58476D1CE4E5B9);
    z = (z ^ (z >> 27)).wrapping_mul(0x94D049BB133111EB);
    z ^ (z >> 31)
}

pub fn hash_str(s: &str) -> u64 {
    // FNV-1a
    let mut h: u64 = 0xcbf29ce484222325;
    for b in s.bytes() {
        h ^= b as u64;
        h = h.wrapping_mul(0x100000001b3);
    }
    h
}

pub fn hash_u64s(v: &[u64]) -> u64 {
    let mut h: u64 = 0x243F6A8885A308D3;
    for x in v {
        h ^= *x;
        let mut t = h;
        h = splitmix(&mut t);
    }
    h
}

impl Rng {
    pub fn new(seed: u64, stream: &str, index: u64) -> Rng {
        let mut x = seed ^ hash_str(stream).rotate_left(17) ^ index.wrapping_mul(0xD6E8FEB86659FD93);
        let mut s = [0u64; 4];
        for v in s.iter_mut() {
            *v = splitmix(&mut x);
        }
        let mut r = Rng { s };
        for _ in 0..4 {
            r.next_u64();
        }
        r
    }

    pub fn next_u64(&mut self) -> u64 {
        let s = &mut self.s;
        let result = s[1].wrapping_mul(5).rotate_left(7).wrapping_mul(9);
        let t = s[1] << 17;
        s[2] ^= s[0];
        s[3] ^= s[1];
        s[1] ^= s[2];
        s[0] ^= s[3];
        s[2] ^= t;
        s[3] = s[3].rotate_left(45);
        result
    }

    pub fn u32(&mut self) -> u32 {
        (self.next_u64() >> 32) as u32
    }

    /// uniform in 0..n (n > 0)
    pub fn below(&mut self, n: u64) -> u64 {
        debug_assert!(n > 0);
        ((self.next_u64() >> 11) as u128 * n as u128 >> 53) as u64
    }

    /// uniform integer in lo..=hi
    pub fn int(&mut self, lo: i64, hi: i64) -> i64 {
        lo + self.below((hi - lo + 1) as u64) as i64
    }

    /// uniform in [0,1)
    pub fn f64(&mut self) -> f64 {
        (self.next_u64() >> 11) as f64 / (1u64 << 53) as f64
    }

    pub fn range(&mut self, lo: f64, hi: f64) -> f64 {
        lo + (hi - lo) * self.f64()
    }

    pub fn chance(&mut self, p: f64) -> bool {
        self.f64() < p
    }

    pub fn pick<'a, T>(&mut self, v: &'a [T]) -> &'a T {
        &v[self.below(v.len() as u64) as usize]
    }

    pub fn byte(&mut self) -> u8 {
        (self.next_u64() >> 40) as u8
    }

    /// a byte biased towards the ends and special values
    pub fn byte_biased(&mut self) -> u8 {
        match self.below(8) {
            0 => 0,
            1 => 255,
            2 => *self.pick(&[1u8, 2, 127, 128, 129, 254, 253, 16, 15, 240]),
            _ => self.byte(),
        }
    }
}
