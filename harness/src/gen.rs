//! Workload generators shared by the checks: sources, paths, stroke styles, draw options.

use crate::json::J;
use crate::prng::Rng;
use crate::util::*;
use raqote::*;

#[derive(Clone, Debug)]
pub struct Stop {
    pub pos: f32,
    /// unpremultiplied a, r, g, b
    pub argb: [u8; 4],
}

#[derive(Clone, Debug)]
pub enum SrcSpec {
    /// premultiplied pixel
    Solid(u32),
    Image { w: i32, h: i32, data: Vec<u32>, repeat: bool, bilinear: bool, transform: Transform },
    Linear { stops: Vec<Stop>, start: (f32, f32), end: (f32, f32), spread: u8 },
    Radial { stops: Vec<Stop>, center: (f32, f32), radius: f32, spread: u8 },
    TwoCircle { stops: Vec<Stop>, c1: (f32, f32), r1: f32, c2: (f32, f32), r2: f32, spread: u8 },
    Sweep { stops: Vec<Stop>, center: (f32, f32), start_angle: f32, end_angle: f32, spread: u8 },
}

pub fn spread_of(s: u8) -> Spread {
    match s {
        0 => Spread::Pad,
        1 => Spread::Reflect,
        _ => Spread::Repeat,
    }
}

pub fn spread_name(s: u8) -> &'static str {
    match s {
        0 => "Pad",
        1 => "Reflect",
        _ => "Repeat",
    }
}

pub fn gradient_of(stops: &[Stop]) -> Gradient {
    Gradient { stops: stops.iter().map(|s| GradientStop { position: s.pos, color: Color::new(s.argb[0], s.argb[1], s.argb[2], s.argb[3]) }).collect() }
}

impl SrcSpec {
    pub fn with<R>(&self, f: impl FnOnce(&Source) -> R) -> R {
        match self {
            SrcSpec::Solid(p) => f(&Source::Solid(solid(*p))),
            SrcSpec::Image { w, h, data, repeat, bilinear, transform } => {
                let img = Image { width: *w, height: *h, data: &data[..] };
                f(&Source::Image(img, if *repeat { ExtendMode::Repeat } else { ExtendMode::Pad }, if *bilinear { FilterMode::Bilinear } else { FilterMode::Nearest }, *transform))
            }
            SrcSpec::Linear { stops, start, end, spread } => f(&Source::new_linear_gradient(gradient_of(stops), Point::new(start.0, start.1), Point::new(end.0, end.1), spread_of(*spread))),
            SrcSpec::Radial { stops, center, radius, spread } => f(&Source::new_radial_gradient(gradient_of(stops), Point::new(center.0, center.1), *radius, spread_of(*spread))),
            SrcSpec::TwoCircle { stops, c1, r1, c2, r2, spread } => {
                f(&Source::new_two_circle_radial_gradient(gradient_of(stops), Point::new(c1.0, c1.1), *r1, Point::new(c2.0, c2.1), *r2, spread_of(*spread)))
            }
            SrcSpec::Sweep { stops, center, start_angle, end_angle, spread } => {
                f(&Source::new_sweep_gradient(gradient_of(stops), Point::new(center.0, center.1), *start_angle, *end_angle, spread_of(*spread)))
            }
        }
    }

    pub fn kind(&self) -> &'static str {
        match self {
            SrcSpec::Solid(_) => "solid",
            SrcSpec::Image { .. } => "image",
            SrcSpec::Linear { .. } => "linear",
            SrcSpec::Radial { .. } => "radial",
            SrcSpec::TwoCircle { .. } => "two_circle",
            SrcSpec::Sweep { .. } => "sweep",
        }
    }

    pub fn desc(&self) -> J {
        let stops_j = |stops: &Vec<Stop>| J::Arr(stops.iter().map(|s| J::s(&format!("{}:{:02x}{:02x}{:02x}{:02x}", fmt_f(s.pos), s.argb[0], s.argb[1], s.argb[2], s.argb[3]))).collect());
        let mut o = J::obj();
        o.set("kind", J::s(self.kind()));
        match self {
            SrcSpec::Solid(p) => {
                o.set("pixel", J::s(&hex(*p)));
            }
            SrcSpec::Image { w, h, data, repeat, bilinear, transform } => {
                o.set("size", J::s(&format!("{}x{}", w, h)));
                o.set("extend", J::s(if *repeat { "Repeat" } else { "Pad" }));
                o.set("filter", J::s(if *bilinear { "Bilinear" } else { "Nearest" }));
                o.set("transform", J::s(&transform_str(transform)));
                o.set("data", pixels_json(data));
            }
            SrcSpec::Linear { stops, start, end, spread } => {
                o.set("stops(argb)", stops_j(stops));
                o.set("start", J::s(&format!("{},{}", fmt_f(start.0), fmt_f(start.1))));
                o.set("end", J::s(&format!("{},{}", fmt_f(end.0), fmt_f(end.1))));
                o.set("spread", J::s(spread_name(*spread)));
            }
            SrcSpec::Radial { stops, center, radius, spread } => {
                o.set("stops(argb)", stops_j(stops));
                o.set("center", J::s(&format!("{},{}", fmt_f(center.0), fmt_f(center.1))));
                o.set("radius", J::s(&fmt_f(*radius)));
                o.set("spread", J::s(spread_name(*spread)));
            }
            SrcSpec::TwoCircle { stops, c1, r1, c2, r2, spread } => {
                o.set("stops(argb)", stops_j(stops));
                o.set("c1", J::s(&format!("{},{} r {}", fmt_f(c1.0), fmt_f(c1.1), fmt_f(*r1))));
                o.set("c2", J::s(&format!("{},{} r {}", fmt_f(c2.0), fmt_f(c2.1), fmt_f(*r2))));
                o.set("spread", J::s(spread_name(*spread)));
            }
            SrcSpec::Sweep { stops, center, start_angle, end_angle, spread } => {
                o.set("stops(argb)", stops_j(stops));
                o.set("center", J::s(&format!("{},{}", fmt_f(center.0), fmt_f(center.1))));
                o.set("angles", J::s(&format!("{}..{}", fmt_f(*start_angle), fmt_f(*end_angle))));
                o.set("spread", J::s(spread_name(*spread)));
            }
        }
        o
    }
}

pub fn random_stops(rng: &mut Rng) -> Vec<Stop> {
    let n = 1 + rng.below(5) as usize;
    let mut pos: Vec<f32> = Vec::new();
    // increasing positions with gaps of at least 2/255
    let mut p = if rng.chance(0.6) { 0.0 } else { rng.range(0., 0.3) };
    for i in 0..n {
        pos.push(p as f32);
        let left = 1.0 - p;
        let remaining = (n - 1 - i) as f64;
        if remaining > 0. {
            let step = (left / remaining) * rng.range(0.3, 1.0);
            p += step.max(2.5 / 255.);
            if p > 1.0 {
                p = 1.0;
            }
        }
    }
    if n > 1 && rng.chance(0.6) {
        let l = pos.len();
        pos[l - 1] = 1.0;
    }
    // a third of the gradients are opaque throughout (what an "is this source opaque" shortcut looks at)
    let all_opaque = rng.chance(0.3);
    // keep strictly increasing
    let mut out: Vec<Stop> = Vec::new();
    for q in pos {
        if let Some(last) = out.last() {
            if q <= last.pos + 2.0 / 255. {
                continue;
            }
        }
        let a = match rng.below(4) {
            _ if all_opaque => 255,
            0 => 255,
            1 => rng.byte_biased(),
            _ => 128 + rng.below(128) as u8,
        };
        out.push(Stop { pos: q, argb: [a, rng.byte_biased(), rng.byte_biased(), rng.byte_biased()] });
    }
    out
}

pub fn random_image_data(rng: &mut Rng, w: i32, h: i32) -> Vec<u32> {
    (0..(w * h) as usize).map(|_| premul_pixel(rng)).collect()
}

/// a source of any kind positioned on a w x h surface
pub fn random_source(rng: &mut Rng, w: i32, h: i32, solid_weight: u64) -> SrcSpec {
    let wf = w.max(1) as f64;
    let hf = h.max(1) as f64;
    let k = rng.below(solid_weight + 6);
    if k < solid_weight {
        return SrcSpec::Solid(premul_pixel(rng));
    }
    match k - solid_weight {
        0 | 1 => {
            let iw = rng.int(1, 6) as i32;
            let ih = rng.int(1, 5) as i32;
            let transform = match rng.below(5) {
                0 => Transform::identity(),
                1 => Transform::translation(rng.int(-4, 4) as f32, rng.int(-4, 4) as f32),
                2 => Transform::translation(rng.range(-4., 4.) as f32, rng.range(-4., 4.) as f32),
                3 => Transform::scale(rng.range(0.3, 2.) as f32, rng.range(0.3, 2.) as f32),
                _ => Transform::rotation(euclid::Angle::radians(rng.range(0., 6.28) as f32)).then_translate(euclid::vec2(rng.range(0., wf) as f32, rng.range(0., hf) as f32)),
            };
            SrcSpec::Image { w: iw, h: ih, data: random_image_data(rng, iw, ih), repeat: rng.chance(0.5), bilinear: rng.chance(0.5), transform }
        }
        2 => {
            let start = (rng.range(-2., wf) as f32, rng.range(-2., hf) as f32);
            let mut end = (rng.range(0., wf + 2.) as f32, rng.range(0., hf + 2.) as f32);
            if ((end.0 - start.0).powi(2) + (end.1 - start.1).powi(2)).sqrt() < 1. {
                end.0 += 2.;
            }
            // a zero-length gradient vector is a legitimate (degenerate) source too
            if rng.chance(0.06) {
                end = start;
            }
            SrcSpec::Linear { stops: random_stops(rng), start, end, spread: rng.below(3) as u8 }
        }
        3 => SrcSpec::Radial { stops: random_stops(rng), center: (rng.range(-1., wf + 1.) as f32, rng.range(-1., hf + 1.) as f32), radius: rng.range(1., wf + hf) as f32, spread: rng.below(3) as u8 },
        4 => {
            let c2 = (rng.range(0., wf) as f32, rng.range(0., hf) as f32);
            let r2 = rng.range(2., wf + hf) as f32;
            // (a first circle that is a point now and then; concentric circles now and then; both: a plain radial
            // gradient written as a two-circle one)
            let r1 = if rng.chance(0.15) { 0. } else { (r2 as f64 * rng.range(0.05, 0.6)) as f32 };
            let concentric = rng.chance(0.2);
            // first circle inside the second - or, one time in four, outside it: the gradient is then a cone and
            // shades nothing (transparent) outside that cone, whatever its stops are
            let room = (r2 - r1) as f64 * 0.8;
            let ang = rng.range(0., 6.28);
            let dist = if concentric { 0. } else if rng.chance(0.25) { (r2 - r1) as f64 * rng.range(1.3, 3.) } else { rng.range(0., room) };
            let c1 = ((c2.0 as f64 + dist * ang.cos()) as f32, (c2.1 as f64 + dist * ang.sin()) as f32);
            SrcSpec::TwoCircle { stops: random_stops(rng), c1, r1, c2, r2, spread: rng.below(3) as u8 }
        }
        _ => {
            // start angle 0 keeps clear of the known sweep bias finding; C12 explores the rest
            let end_angle = *rng.pick(&[360.0f32, 180.0, 90.0, 270.0, 45.0]);
            SrcSpec::Sweep { stops: random_stops(rng), center: (rng.range(0., wf) as f32, rng.range(0., hf) as f32), start_angle: 0., end_angle, spread: rng.below(3) as u8 }
        }
    }
}

/// the same source with one ingredient changed (the other ingredients stay bit-identical): what an
/// implementation may remember about a source must be keyed by all of them
pub fn vary_source(rng: &mut Rng, s: &SrcSpec) -> SrcSpec {
    let mut v = s.clone();
    let bump = |rng: &mut Rng, stops: &mut Vec<Stop>| {
        let k = rng.below(stops.len() as u64) as usize;
        let c = rng.below(4) as usize;
        stops[k].argb[c] = stops[k].argb[c].wrapping_add(*rng.pick(&[1u8, 64, 128, 255]));
    };
    let shift = |rng: &mut Rng, p: &mut (f32, f32)| {
        p.0 += *rng.pick(&[0.5f32, -1.0, 3.0]);
        p.1 += *rng.pick(&[0.0f32, 1.0, -2.5]);
    };
    let which = rng.below(3);
    match &mut v {
        SrcSpec::Solid(p) => *p = premul_pixel(rng),
        SrcSpec::Image { data, repeat, bilinear, transform, .. } => match which {
            0 => {
                let k = rng.below(data.len() as u64) as usize;
                data[k] = premul_pixel(rng);
            }
            1 => *transform = transform.then_translate(euclid::vec2(0.5, -1.0)),
            _ => {
                if rng.chance(0.5) { *repeat = !*repeat } else { *bilinear = !*bilinear }
            }
        },
        SrcSpec::Linear { stops, start, end, spread } => match which {
            0 => bump(rng, stops),
            1 => { if rng.chance(0.5) { shift(rng, start) } else { shift(rng, end) } }
            _ => *spread = (*spread + 1) % 3,
        },
        SrcSpec::Radial { stops, center, radius, spread } => match which {
            0 => bump(rng, stops),
            1 => { if rng.chance(0.5) { shift(rng, center) } else { *radius *= 1.5 } }
            _ => *spread = (*spread + 1) % 3,
        },
        SrcSpec::TwoCircle { stops, c1, r1, c2, spread, .. } => match which {
            0 => bump(rng, stops),
            1 => { if rng.chance(0.3) { shift(rng, c1) } else if rng.chance(0.5) { shift(rng, c2) } else { *r1 *= 0.5 } }
            _ => *spread = (*spread + 1) % 3,
        },
        SrcSpec::Sweep { stops, center, start_angle, spread, .. } => match which {
            0 => bump(rng, stops),
            1 => { if rng.chance(0.5) { shift(rng, center) } else { *start_angle += 10. } }
            _ => *spread = (*spread + 1) % 3,
        },
    }
    v
}

pub fn random_alpha(rng: &mut Rng) -> f32 {
    match rng.below(9) {
        0 => 0.0,
        1 => 1.0 / 255.0,
        2 => 0.5,
        3 | 4 | 8 => 1.0,
        5 => 254.0 / 255.0,
        _ => rng.f64() as f32,
    }
}

pub fn random_mode(rng: &mut Rng) -> BlendMode {
    match rng.below(10) {
        0 | 1 | 2 => BlendMode::SrcOver,
        // the modes that erase or replace the destination wherever the source does not cover it
        3 | 4 => *rng.pick(&[BlendMode::Src, BlendMode::Clear, BlendMode::SrcIn, BlendMode::DstIn, BlendMode::SrcOut, BlendMode::DstAtop]),
        _ => MODES[rng.below(28) as usize].0,
    }
}

fn coord(rng: &mut Rng, size: f64) -> f32 {
    match rng.below(8) {
        0 => rng.int(-2, size as i64 + 2) as f32,
        1 => (rng.int(-8, 4 * size as i64 + 8) as f32) / 4.,
        2 => rng.range(-size, 2. * size) as f32,
        _ => rng.range(-1.5, size + 1.5) as f32,
    }
}

/// A random path in user space roughly on a w x h area: polygons, optionally with curves.
/// `partial` makes shapes that do not cover the whole area likely.
pub fn random_path(rng: &mut Rng, w: i32, h: i32, curves: bool) -> Path {
    let wf = w.max(1) as f64;
    let hf = h.max(1) as f64;
    let mut ops = Vec::new();
    let nsub = 1 + rng.below(2);
    for si in 0..nsub {
        let n = 2 + rng.below(5);
        let p0 = Point::new(coord(rng, wf), coord(rng, hf));
        if !(si == 0 && rng.chance(0.05)) {
            ops.push(PathOp::MoveTo(p0));
        }
        for _ in 0..n {
            let p = Point::new(coord(rng, wf), coord(rng, hf));
            if curves && rng.chance(0.4) {
                if rng.chance(0.5) {
                    ops.push(PathOp::QuadTo(Point::new(coord(rng, wf), coord(rng, hf)), p));
                } else {
                    ops.push(PathOp::CubicTo(Point::new(coord(rng, wf), coord(rng, hf)), Point::new(coord(rng, wf), coord(rng, hf)), p));
                }
            } else {
                ops.push(PathOp::LineTo(p));
            }
        }
        if rng.chance(0.5) {
            ops.push(PathOp::Close);
        }
    }
    Path { ops, winding: if rng.chance(0.3) { Winding::EvenOdd } else { Winding::NonZero } }
}

/// a small shape that leaves most of the surface uncovered
pub fn small_shape(rng: &mut Rng, w: i32, h: i32) -> Path {
    let wf = w.max(1) as f64;
    let hf = h.max(1) as f64;
    let cx = rng.range(0., wf);
    let cy = rng.range(0., hf);
    let r = rng.range(0.4, (wf.min(hf) / 2.).max(1.));
    let mut pb = PathBuilder::new();
    match rng.below(4) {
        0 => pb.rect((cx - r) as f32, (cy - r) as f32, (2. * r) as f32, (1.2 * r) as f32),
        1 => {
            pb.move_to(cx as f32, (cy - r) as f32);
            pb.line_to((cx + r) as f32, (cy + r) as f32);
            pb.line_to((cx - r) as f32, (cy + 0.7 * r) as f32);
            pb.close();
        }
        2 => {
            pb.move_to((cx + r) as f32, cy as f32);
            pb.arc(cx as f32, cy as f32, r as f32, 0., 6.3);
            pb.close();
        }
        _ => {
            // integer aligned rectangle
            let x = rng.int(-1, w as i64) as f32;
            let y = rng.int(-1, h as i64) as f32;
            pb.rect(x, y, rng.int(1, 4) as f32, rng.int(1, 4) as f32);
        }
    }
    pb.finish()
}

pub fn random_style(rng: &mut Rng, max_width: f64) -> StrokeStyle {
    StrokeStyle {
        width: match rng.below(10) {
            0 => 1.0,
            _ => rng.range(0.3, max_width) as f32,
        },
        cap: *rng.pick(&[LineCap::Butt, LineCap::Round, LineCap::Square]),
        join: *rng.pick(&[LineJoin::Miter, LineJoin::Round, LineJoin::Bevel]),
        miter_limit: *rng.pick(&[0.5f32, 1., 1.5, 2., 4., 10.]),
        // (one dashed style in ten carries an array that disables the stroke: a total that is not positive, or NaN)
        dash_array: if rng.chance(0.25) {
            if rng.chance(0.1) { rng.pick(&[vec![0.0f32], vec![-1.], vec![5., -10.], vec![f32::NAN, 4.], vec![0., 0.]]).clone() } else { (0..1 + rng.below(4)).map(|_| rng.range(0.5, 6.) as f32).collect() }
        } else {
            Vec::new()
        },
        dash_offset: if rng.chance(0.5) { 0. } else { rng.range(-10., 10.) as f32 },
    }
}

pub fn style_str(s: &StrokeStyle) -> String {
    format!("width {} cap {:?} join {:?} miter_limit {} dash {:?} offset {}", fmt_f(s.width), s.cap, s.join, fmt_f(s.miter_limit), s.dash_array, fmt_f(s.dash_offset))
}
