//! /verif/known_findings.json: genuine defects that are recorded rather than repaired.
//! Only entries with status "known" suppress anything, and only for a failing case that the
//! check's own signature predicate (in code) attributes to exactly that finding.

use crate::json::{self, J};

#[derive(Clone, Debug)]
pub struct Finding {
    pub property: String,
    pub status: String,
    pub signature: String,
    pub what: String,
}

#[derive(Clone, Debug, Default)]
pub struct Known {
    pub findings: Vec<Finding>,
}

impl Known {
    pub fn load(path: &str) -> Result<Known, String> {
        let text = match std::fs::read_to_string(path) {
            Ok(t) => t,
            Err(_) => return Ok(Known::default()),
        };
        let j = json::parse(&text)?;
        let mut k = Known::default();
        if let Some(arr) = j.get("findings").and_then(|a| a.as_arr()) {
            for f in arr {
                let g = |key: &str| f.get(key).and_then(|v| v.as_str()).unwrap_or("").to_string();
                k.findings.push(Finding { property: g("property"), status: g("status"), signature: g("signature"), what: g("what") });
            }
        }
        Ok(k)
    }

    /// is `signature` listed as a known (unrepaired) finding of `property`?
    pub fn active(&self, property: &str, signature: &str) -> bool {
        self.findings.iter().any(|f| f.status == "known" && f.property == property && f.signature == signature)
    }

    pub fn what(&self, property: &str, signature: &str) -> String {
        self.findings
            .iter()
            .find(|f| f.property == property && f.signature == signature)
            .map(|f| f.what.clone())
            .unwrap_or_default()
    }

    pub fn to_json(&self, property: &str) -> J {
        J::Arr(
            self.findings
                .iter()
                .filter(|f| f.property == property)
                .map(|f| {
                    let mut o = J::obj();
                    o.set("signature", J::s(&f.signature));
                    o.set("status", J::s(&f.status));
                    o
                })
                .collect(),
        )
    }
}
