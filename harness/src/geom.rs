//! f64 geometry kit for the region oracles (C04, C08, C09, C16, C17, C20).

use crate::util::T64;
use raqote::{Path, PathOp};

#[derive(Clone, Copy, Debug, PartialEq)]
pub struct P {
    pub x: f64,
    pub y: f64,
}

impl P {
    pub fn new(x: f64, y: f64) -> P {
        P { x, y }
    }
    pub fn sub(self, o: P) -> P {
        P::new(self.x - o.x, self.y - o.y)
    }
    pub fn add(self, o: P) -> P {
        P::new(self.x + o.x, self.y + o.y)
    }
    pub fn mul(self, k: f64) -> P {
        P::new(self.x * k, self.y * k)
    }
    pub fn dot(self, o: P) -> f64 {
        self.x * o.x + self.y * o.y
    }
    pub fn cross(self, o: P) -> f64 {
        self.x * o.y - self.y * o.x
    }
    pub fn len(self) -> f64 {
        self.x.hypot(self.y)
    }
    pub fn unit(self) -> P {
        let l = self.len();
        P::new(self.x / l, self.y / l)
    }
    /// rotated by +90 degrees: (-y, x)
    pub fn perp(self) -> P {
        P::new(-self.y, self.x)
    }
    pub fn dist(self, o: P) -> f64 {
        self.sub(o).len()
    }
}

pub fn pt(p: &raqote::Point) -> P {
    P::new(p.x as f64, p.y as f64)
}

pub fn dist_to_segment(p: P, a: P, b: P) -> f64 {
    let ab = b.sub(a);
    let l2 = ab.dot(ab);
    if l2 == 0. {
        return p.dist(a);
    }
    let t = (p.sub(a).dot(ab) / l2).clamp(0., 1.);
    p.dist(a.add(ab.mul(t)))
}

/// A subpath as a polyline: the points, and whether it was closed explicitly.
#[derive(Clone, Debug)]
pub struct Sub {
    pub pts: Vec<P>,
    pub closed: bool,
}

pub fn quad_at(a: P, c: P, b: P, t: f64) -> P {
    let u = 1. - t;
    P::new(u * u * a.x + 2. * u * t * c.x + t * t * b.x, u * u * a.y + 2. * u * t * c.y + t * t * b.y)
}

pub fn cubic_at(a: P, c1: P, c2: P, b: P, t: f64) -> P {
    let u = 1. - t;
    P::new(
        u * u * u * a.x + 3. * u * u * t * c1.x + 3. * u * t * t * c2.x + t * t * t * b.x,
        u * u * u * a.y + 3. * u * u * t * c1.y + 3. * u * t * t * c2.y + t * t * t * b.y,
    )
}

/// Reference interpreter of the path semantics (the statement of C08/C16): a drawing command
/// after Close continues from the subpath's starting point, a command without a current point
/// starts at its first control point. Curves are sampled with `steps` segments.
/// `explicit_only`: closed is set only by an explicit Close (stroking); fills close everything.
pub fn subpaths(path: &Path, steps: usize) -> Vec<Sub> {
    let mut subs: Vec<Sub> = Vec::new();
    let mut cur: Option<Sub> = None;
    let mut start: Option<P> = None;
    // after a Close the next drawing command starts a new subpath at the old start
    let mut pending_start: Option<P> = None;
    fn begin(cur: &mut Option<Sub>, subs: &mut Vec<Sub>, p: P) {
        if let Some(s) = cur.take() {
            subs.push(s);
        }
        *cur = Some(Sub { pts: vec![p], closed: false });
    }
    for op in &path.ops {
        match op {
            PathOp::MoveTo(p) => {
                let p = pt(p);
                begin(&mut cur, &mut subs, p);
                start = Some(p);
                pending_start = None;
            }
            PathOp::Close => {
                if let Some(mut s) = cur.take() {
                    s.closed = true;
                    subs.push(s);
                }
                pending_start = start;
            }
            _ => {
                // a drawing command
                let first_ctrl = match op {
                    PathOp::LineTo(p) => pt(p),
                    PathOp::QuadTo(c, _) => pt(c),
                    PathOp::CubicTo(c, _, _) => pt(c),
                    _ => unreachable!(),
                };
                if cur.is_none() {
                    let s0 = pending_start.take().unwrap_or(first_ctrl);
                    if start.is_none() {
                        start = Some(s0);
                    }
                    cur = Some(Sub { pts: vec![s0], closed: false });
                    if pending_start.is_none() && start == Some(s0) {}
                }
                let s = cur.as_mut().unwrap();
                let a = *s.pts.last().unwrap();
                match op {
                    PathOp::LineTo(p) => s.pts.push(pt(p)),
                    PathOp::QuadTo(c, p) => {
                        for i in 1..=steps {
                            s.pts.push(quad_at(a, pt(c), pt(p), i as f64 / steps as f64));
                        }
                    }
                    PathOp::CubicTo(c1, c2, p) => {
                        for i in 1..=steps {
                            s.pts.push(cubic_at(a, pt(c1), pt(c2), pt(p), i as f64 / steps as f64));
                        }
                    }
                    _ => unreachable!(),
                }
            }
        }
    }
    if let Some(s) = cur.take() {
        subs.push(s);
    }
    subs
}

pub fn transform_subs(subs: &[Sub], t: &T64) -> Vec<Sub> {
    subs.iter()
        .map(|s| Sub {
            pts: s
                .pts
                .iter()
                .map(|p| {
                    let (x, y) = t.apply(p.x, p.y);
                    P::new(x, y)
                })
                .collect(),
            closed: s.closed,
        })
        .collect()
}

/// winding number of `p` with respect to the implicitly closed subpaths (half-open crossing rule)
pub fn winding_number(subs: &[Sub], p: P) -> i32 {
    let mut w = 0;
    for s in subs {
        let n = s.pts.len();
        if n < 2 {
            continue;
        }
        for i in 0..n {
            let a = s.pts[i];
            let b = s.pts[(i + 1) % n];
            if (a.y <= p.y) != (b.y <= p.y) {
                // crossing of the horizontal line through p; is it to the right of p?
                let t = (p.y - a.y) / (b.y - a.y);
                let x = a.x + t * (b.x - a.x);
                if x > p.x {
                    w += if b.y > a.y { 1 } else { -1 };
                }
            }
        }
    }
    w
}

/// distance from `p` to the outline of the implicitly closed subpaths
pub fn dist_to_outline(subs: &[Sub], p: P, closing: bool) -> f64 {
    let mut d = f64::INFINITY;
    for s in subs {
        let n = s.pts.len();
        if n == 0 {
            continue;
        }
        if n == 1 {
            d = d.min(p.dist(s.pts[0]));
            continue;
        }
        let m = if closing || s.closed { n } else { n - 1 };
        for i in 0..m {
            d = d.min(dist_to_segment(p, s.pts[i], s.pts[(i + 1) % n]));
        }
    }
    d
}

/// A convex polygon (any orientation).
#[derive(Clone, Debug)]
pub struct Convex {
    pub pts: Vec<P>,
}

impl Convex {
    pub fn new(pts: Vec<P>) -> Convex {
        Convex { pts }
    }
    pub fn area2(&self) -> f64 {
        let n = self.pts.len();
        let mut a = 0.;
        for i in 0..n {
            a += self.pts[i].cross(self.pts[(i + 1) % n]);
        }
        a
    }
    /// signed distance: positive inside (distance to the boundary), negative outside
    pub fn signed_dist(&self, p: P) -> f64 {
        let n = self.pts.len();
        if n < 3 {
            let mut d = f64::INFINITY;
            for i in 0..n {
                d = d.min(dist_to_segment(p, self.pts[i], self.pts[(i + 1) % n]));
            }
            return -d;
        }
        let orient = if self.area2() >= 0. { 1. } else { -1. };
        let mut inside = true;
        let mut dmin = f64::INFINITY;
        for i in 0..n {
            let a = self.pts[i];
            let b = self.pts[(i + 1) % n];
            let e = b.sub(a);
            if e.len() == 0. {
                continue;
            }
            let side = e.cross(p.sub(a)) * orient;
            if side < 0. {
                inside = false;
            }
            dmin = dmin.min(dist_to_segment(p, a, b));
        }
        if self.area2().abs() < 1e-12 {
            return -dmin;
        }
        if inside {
            dmin
        } else {
            -dmin
        }
    }
    /// the width of the polygon: the smallest extent over all edge normals
    pub fn width(&self) -> f64 {
        let n = self.pts.len();
        let mut w = f64::INFINITY;
        for i in 0..n {
            let a = self.pts[i];
            let b = self.pts[(i + 1) % n];
            let e = b.sub(a);
            if e.len() == 0. {
                continue;
            }
            let nrm = e.perp().unit();
            let (mut lo, mut hi) = (f64::INFINITY, f64::NEG_INFINITY);
            for p in &self.pts {
                let d = p.sub(a).dot(nrm);
                lo = lo.min(d);
                hi = hi.max(d);
            }
            w = w.min(hi - lo);
        }
        if w.is_finite() {
            w
        } else {
            0.
        }
    }
    pub fn transform(&self, t: &T64) -> Convex {
        Convex {
            pts: self
                .pts
                .iter()
                .map(|p| {
                    let (x, y) = t.apply(p.x, p.y);
                    P::new(x, y)
                })
                .collect(),
        }
    }
}

#[derive(Clone, Copy, Debug, PartialEq)]
pub enum Cap {
    Butt,
    Round,
    Square,
}

#[derive(Clone, Copy, Debug, PartialEq)]
pub enum Join {
    Miter,
    Round,
    Bevel,
}

/// The stroke region of the statement of C04 as convex primitives: (inscribed, circumscribed).
/// Round parts are 96-gons inside / outside the true discs. `ill` is set when the construction
/// is ill-conditioned for a tolerance check (a miter join close to its switch-over, a vertex that
/// is almost but not exactly a cusp).
pub struct Region {
    pub inner: Vec<Convex>,
    pub outer: Vec<Convex>,
    pub ill: bool,
}

const ARC_STEPS_PER_TURN: f64 = 96.;

/// sector of the disc (centre c, radius r) from direction u0 to direction u1 (unit vectors), going
/// through the direction `via`: convex polygons inside and outside the true sector
fn sector(c: P, r: f64, u0: P, u1: P, via: P) -> (Convex, Convex) {
    let a0 = u0.y.atan2(u0.x);
    let mut sweep = u0.cross(u1).atan2(u0.dot(u1)); // in (-pi, pi]
    // choose the direction that passes through `via`
    let mid_short = P::new((a0 + sweep / 2.).cos(), (a0 + sweep / 2.).sin());
    if mid_short.dot(via) < 0. {
        sweep = if sweep > 0. { sweep - std::f64::consts::TAU } else { sweep + std::f64::consts::TAU };
    }
    let n = ((sweep.abs() / std::f64::consts::TAU * ARC_STEPS_PER_TURN).ceil() as usize).max(1);
    let d = sweep / n as f64;
    let mut inner = vec![c];
    let mut outer = vec![c];
    for i in 0..=n {
        let a = a0 + d * i as f64;
        inner.push(P::new(c.x + r * a.cos(), c.y + r * a.sin()));
    }
    outer.push(P::new(c.x + r * a0.cos(), c.y + r * a0.sin()));
    let ro = r / (d / 2.).cos();
    for i in 0..n {
        let a = a0 + d * (i as f64 + 0.5);
        outer.push(P::new(c.x + ro * a.cos(), c.y + ro * a.sin()));
    }
    let a1 = a0 + sweep;
    outer.push(P::new(c.x + r * a1.cos(), c.y + r * a1.sin()));
    (Convex::new(inner), Convex::new(outer))
}

fn add_join(reg: &mut Region, p: P, d1: P, d2: P, hw: f64, join: Join, miter_limit: f64) {
    // d1: unit direction arriving at p, d2: unit direction leaving p
    let cross = d1.cross(d2);
    let dotp = d1.dot(d2);
    let turn = cross.atan2(dotp).abs(); // 0..pi
    if turn < 1e-9 {
        return; // straight on: nothing to add
    }
    // the outer side is opposite to the turn direction
    let s = if cross > 0. { -1. } else { 1. };
    let n1 = d1.perp().mul(s);
    let n2 = d2.perp().mul(s);
    if turn > std::f64::consts::PI - 1e-6 {
        // a cusp (180 degrees): which side is "outer" is a coin toss for the implementation, and
        // the two choices differ by a half disc / nothing: not assertable unless exactly reversed
        if cross != 0. {
            reg.ill = true;
        }
    }
    let o1 = p.add(n1.mul(hw));
    let o2 = p.add(n2.mul(hw));
    match join {
        Join::Bevel => {
            let c = Convex::new(vec![p, o1, o2]);
            reg.inner.push(c.clone());
            reg.outer.push(c);
        }
        Join::Round => {
            let via = n1.add(n2);
            let via = if via.len() < 1e-9 { d1 } else { via.unit() };
            let (i, o) = sector(p, hw, n1, n2, via);
            reg.inner.push(i);
            reg.outer.push(o);
        }
        Join::Miter => {
            // miter ratio 1/sin(theta/2) with theta the angle between the segments = 1/cos(turn/2)
            let ratio = 1. / (turn / 2.).cos();
            if (ratio - miter_limit).abs() <= 0.03 * miter_limit.max(1e-9) {
                reg.ill = true;
            }
            if ratio <= miter_limit {
                let tip = p.add(n1.add(n2).mul(hw / (1. + n1.dot(n2))));
                let c = Convex::new(vec![p, o1, tip, o2]);
                reg.inner.push(c.clone());
                reg.outer.push(c);
            } else {
                let c = Convex::new(vec![p, o1, o2]);
                reg.inner.push(c.clone());
                reg.outer.push(c);
            }
        }
    }
}

fn add_cap(reg: &mut Region, p: P, dir_out: P, hw: f64, cap: Cap) {
    // dir_out: unit direction pointing away from the stroke at this end
    let n = dir_out.perp();
    match cap {
        Cap::Butt => {}
        Cap::Square => {
            let a = p.add(n.mul(hw));
            let b = p.sub(n.mul(hw));
            let e = dir_out.mul(hw);
            let c = Convex::new(vec![a, a.add(e), b.add(e), b]);
            reg.inner.push(c.clone());
            reg.outer.push(c);
        }
        Cap::Round => {
            let (i, o) = sector(p, hw, n, n.mul(-1.), dir_out);
            reg.inner.push(i);
            reg.outer.push(o);
        }
    }
}

/// Builds the region for polylines in user space; the primitives are then mapped by `t`.
pub fn stroke_region(subs: &[Sub], width: f64, cap: Cap, join: Join, miter_limit: f64, t: &T64) -> Region {
    let mut reg = Region { inner: Vec::new(), outer: Vec::new(), ill: false };
    if !(width > 0.) {
        return reg;
    }
    let hw = width / 2.;
    for s in subs {
        // drop repeated points (zero-length segments contribute nothing)
        let mut pts: Vec<P> = Vec::new();
        for p in &s.pts {
            if pts.last().map(|l| l.dist(*p) == 0.).unwrap_or(false) {
                continue;
            }
            pts.push(*p);
        }
        let mut closed = s.closed;
        if closed && pts.len() >= 2 && pts[0].dist(pts[pts.len() - 1]) == 0. {
            pts.pop();
        }
        if pts.len() < 2 {
            // a single point: nothing is stroked (no direction for caps)
            continue;
        }
        if closed && pts.len() < 2 {
            closed = false;
        }
        let n = pts.len();
        let nseg = if closed { n } else { n - 1 };
        let dir = |i: usize| -> P { pts[(i + 1) % n].sub(pts[i]).unit() };
        for i in 0..nseg {
            let a = pts[i];
            let b = pts[(i + 1) % n];
            let nrm = dir(i).perp().mul(hw);
            let c = Convex::new(vec![a.add(nrm), b.add(nrm), b.sub(nrm), a.sub(nrm)]);
            reg.inner.push(c.clone());
            reg.outer.push(c);
        }
        // joins
        if closed {
            for i in 0..n {
                let prev = (i + n - 1) % n;
                add_join(&mut reg, pts[i], dir(prev), dir(i), hw, join, miter_limit);
            }
        } else {
            for i in 1..n - 1 {
                add_join(&mut reg, pts[i], dir(i - 1), dir(i), hw, join, miter_limit);
            }
            add_cap(&mut reg, pts[0], dir(0).mul(-1.), hw, cap);
            add_cap(&mut reg, pts[n - 1], dir(n - 2), hw, cap);
        }
    }
    reg.inner = reg.inner.iter().map(|c| c.transform(t)).collect();
    reg.outer = reg.outer.iter().map(|c| c.transform(t)).collect();
    reg
}

/// classification of a pixel against a region: Some(true) deep inside, Some(false) deep outside
pub fn classify(reg: &Region, c: P, r: f64) -> Option<bool> {
    let mut max_in = f64::NEG_INFINITY;
    for p in &reg.inner {
        let d = p.signed_dist(c);
        if d > max_in {
            max_in = d;
        }
    }
    if max_in >= r {
        return Some(true);
    }
    let mut all_out = true;
    for p in &reg.outer {
        if p.signed_dist(c) > -r {
            all_out = false;
            break;
        }
    }
    if all_out {
        Some(false)
    } else {
        None
    }
}
