//! rv: runtime monitors for raqote. Usage:
//!   rv <PROPERTY> --tier quick|thorough [--seed N] [--evidence FILE] [--replay FILE]
//!      [--threads N] [--sub NAME] [--shard I/N] [--scale-div N] [--miri] [--no-evidence]

#![allow(dead_code)]
mod text;
mod checks;
mod gen;
mod geom;
mod ops;
mod scene;
mod json;
mod known;
mod prng;
mod runner;
mod util;

use json::J;
use runner::*;
use std::time::Instant;

fn main() {
    let args: Vec<String> = std::env::args().collect();
    if args.len() < 2 {
        eprintln!("usage: rv <PROPERTY> --tier quick|thorough [--seed N] [--evidence FILE] [--replay FILE]");
        std::process::exit(2);
    }
    let prop = args[1].clone();
    let mut tier = Tier::Quick;
    let mut seed: u64 = std::env::var("VERIF_SEED").ok().and_then(|s| s.parse().ok()).unwrap_or(1);
    let mut evidence: Option<String> = None;
    let mut replay_file: Option<String> = None;
    let mut threads = std::thread::available_parallelism().map(|n| n.get()).unwrap_or(4);
    let mut only_sub = None;
    let mut shard = (0u64, 1u64);
    let mut scale_div = 1u64;
    let mut miri = false;
    let mut verif_dir = "/verif".to_string();
    let mut i = 2;
    while i < args.len() {
        let a = args[i].as_str();
        let val = |i: &mut usize| -> String {
            *i += 1;
            args.get(*i).cloned().unwrap_or_else(|| {
                eprintln!("missing value for {}", a);
                std::process::exit(2)
            })
        };
        match a {
            "--tier" => {
                tier = match val(&mut i).as_str() {
                    "quick" => Tier::Quick,
                    "thorough" => Tier::Thorough,
                    t => {
                        eprintln!("bad tier {}", t);
                        std::process::exit(2)
                    }
                }
            }
            "--seed" => seed = val(&mut i).parse().unwrap_or(1),
            "--evidence" => evidence = Some(val(&mut i)),
            "--replay" => replay_file = Some(val(&mut i)),
            "--threads" => threads = val(&mut i).parse().unwrap_or(1),
            "--sub" => only_sub = Some(val(&mut i)),
            "--shard" => {
                let v = val(&mut i);
                let mut it = v.split('/');
                shard = (it.next().and_then(|s| s.parse().ok()).unwrap_or(0), it.next().and_then(|s| s.parse().ok()).unwrap_or(1));
            }
            "--scale-div" => scale_div = val(&mut i).parse().unwrap_or(1),
            "--miri" => miri = true,
            "--verif-dir" => verif_dir = val(&mut i),
            _ => {
                eprintln!("unknown argument {}", a);
                std::process::exit(2)
            }
        }
        i += 1;
    }

    let mut replay = None;
    if let Some(f) = &replay_file {
        let text = std::fs::read_to_string(f).unwrap_or_else(|e| {
            eprintln!("cannot read replay file {}: {}", f, e);
            std::process::exit(2)
        });
        let j = json::parse(&text).unwrap_or_else(|e| {
            eprintln!("cannot parse replay file {}: {}", f, e);
            std::process::exit(2)
        });
        seed = j.get("seed").and_then(|v| v.as_i64()).unwrap_or(seed as i64) as u64;
        if j.get("tier").and_then(|v| v.as_str()) == Some("thorough") {
            tier = Tier::Thorough;
        }
        replay = Some(Replay { sub: j.get("sub").and_then(|v| v.as_str()).unwrap_or("").to_string(), index: j.get("index").and_then(|v| v.as_i64()).unwrap_or(0) as u64 });
    }

    let known = known::Known::load(&format!("{}/known_findings.json", verif_dir)).unwrap_or_else(|e| {
        eprintln!("cannot parse known_findings.json: {}", e);
        std::process::exit(2)
    });

    install_panic_hook();
    let ctx = Ctx { prop: prop.clone(), tier, seed, threads, replay, known, scale_div, miri, only_sub, shard, start: Instant::now() };
    let out = match checks::dispatch(&ctx) {
        Some(o) => o,
        None => {
            eprintln!("no check for property {}", prop);
            std::process::exit(2)
        }
    };
    let mut out = out;
    // coverage goals: the internal paths a check aims at must actually have been reached (hook counters);
    // a full run that missed one is inconclusive, not green
    if ctx.replay.is_none() && ctx.scale_div == 1 && !ctx.miri && ctx.only_sub.is_none() && ctx.shard.1 <= 1 && std::env::var("RV_WORKER").is_err() {
        let hits = raqote::verif::hits();
        let missed: Vec<&str> = required_sites(&prop).into_iter().filter(|name| raqote::verif::SITES.iter().zip(hits.iter()).any(|(n, h)| n == name && *h == 0)).collect();
        if !missed.is_empty() {
            out.inconclusive(format!("the workload never reached: {}", missed.join(", ")));
        }
    }
    let wall = ctx.start.elapsed().as_secs_f64();

    // replay files and verdict lines
    let mut lines = Vec::new();
    let is_worker = std::env::var("RV_WORKER").is_ok();
    if is_worker {
        // a worker subprocess reports through its evidence file only
    } else if ctx.replay.is_none() {
        let _ = std::fs::create_dir_all(format!("{}/replays", verif_dir));
        for v in &out.violations {
            let path = format!("{}/replays/{}-seed{}-{}-{}.json", verif_dir, prop, seed, v.sub, v.index);
            let mut j = J::obj();
            j.set("property", J::s(&prop));
            j.set("seed", J::Int(seed as i64));
            j.set("tier", J::s(if tier == Tier::Quick { "quick" } else { "thorough" }));
            j.set("sub", J::s(&v.sub));
            j.set("index", J::Int(v.index as i64));
            j.set("what", J::s(&v.what));
            j.set("case", v.desc.clone());
            let _ = std::fs::write(&path, j.to_string_pretty());
            lines.push(format!("VIOLATION property={} replay={}", prop, path));
            eprintln!("  {}/{}#{}: {}", prop, v.sub, v.index, v.what);
        }
    } else {
        for _ in &out.violations {
            lines.push(format!("VIOLATION property={} replay={}", prop, replay_file.clone().unwrap()));
        }
    }
    for (sig, (count, what)) in &out.known_hits {
        if is_worker {
            break;
        }
        println!("KNOWN-FINDING: property={} {} [{}; {} cases in this run, e.g. {}]", prop, ctx.known.what(&prop, sig), sig, count, what);
    }
    for l in &lines {
        println!("{}", l);
    }

    if let Some(path) = &evidence {
        let mut cov = J::obj();
        cov.set("evaluations", J::Int(out.evaluations as i64));
        cov.set("distinct_nontrivial", J::Int(out.distinct_nontrivial() as i64));
        cov.set("rule", J::s(&out.rule));
        cov.set("samples", J::Arr(out.samples.clone()));
        if !out.exhaustive_subs.is_empty() {
            cov.set("exhaustive_subspaces_completed", J::Arr(out.exhaustive_subs.iter().map(|s| J::s(s)).collect()));
        }
        cov.set("nontrivial_evaluations", J::Int(out.nontrivial as i64));
        cov.set("workloads", J::Arr(out.subs.clone()));
        cov.set("observed", J::from_map(&out.stats.counters));
        if !out.stats.maxima.is_empty() {
            cov.set("observed_maxima", J::from_fmap(&out.stats.maxima));
        }
        if !out.cross_signals.is_empty() {
            cov.set(
                "cross_signals",
                J::Obj(out.cross_signals.iter().map(|(k, v)| (k.clone(), J::s(&format!("{} cases, e.g. {}", v.0, v.1)))).collect()),
            );
        }
        if !out.known_hits.is_empty() {
            cov.set("known_findings_observed", J::Obj(out.known_hits.iter().map(|(k, v)| (k.clone(), J::Int(v.0 as i64))).collect()));
        }
        cov.set("known_findings_listed", ctx.known.to_json(&prop));
        if !out.inconclusive.is_empty() {
            cov.set("inconclusive", J::Arr(out.inconclusive.iter().map(|s| J::s(s)).collect()));
        }
        if is_worker {
            cov.set(
                "violations_list",
                J::Arr(
                    out.violations
                        .iter()
                        .map(|v| {
                            let mut o = J::obj();
                            o.set("sub", J::s(&v.sub));
                            o.set("index", J::Int(v.index as i64));
                            o.set("what", J::s(&v.what));
                            o.set("case", v.desc.clone());
                            o
                        })
                        .collect(),
                ),
            );
        }
        cov.set("hooks", hook_counters());
        for (k, v) in &out.extra {
            cov.set(k, v.clone());
        }
        cov.set("threads", J::Int(threads as i64));
        cov.set("build", J::s(option_env!("RV_BUILD_MODE").unwrap_or("unknown")));
        let mut ev = J::obj();
        ev.set("property_id", J::s(&prop));
        ev.set("tier", J::s(if tier == Tier::Quick { "quick" } else { "thorough" }));
        ev.set("seed", J::Int(seed as i64));
        ev.set("level", J::s("exploration"));
        ev.set("coverage", cov);
        ev.set("assumptions", J::Arr(out.assumptions.iter().map(|s| J::s(s)).collect()));
        ev.set("wall_s", J::Num((wall * 100.).round() / 100.));
        ev.set("violations", J::Int(out.violation_count as i64));
        if let Err(e) = std::fs::write(path, ev.to_string_pretty()) {
            eprintln!("cannot write evidence {}: {}", path, e);
            std::process::exit(2);
        }
    }

    eprintln!(
        "{} {:?} seed {}: {} evaluations, {} distinct non-trivial, {} violations, {:.1}s",
        prop,
        tier,
        seed,
        out.evaluations,
        out.distinct_nontrivial(),
        out.violation_count,
        wall
    );
    if out.violation_count > 0 {
        std::process::exit(1);
    }
    if !out.inconclusive.is_empty() {
        for s in &out.inconclusive {
            eprintln!("INCONCLUSIVE: {}", s);
        }
        std::process::exit(2);
    }
}

fn required_sites(prop: &str) -> Vec<&'static str> {
    let shaders: Vec<&'static str> = raqote::verif::SITES.iter().cloned().filter(|s| s.starts_with("shader:")).collect();
    let images: Vec<&'static str> = shaders.iter().cloned().filter(|s| s.contains("Image")).collect();
    let gradients: Vec<&'static str> = shaders.iter().cloned().filter(|s| s.contains("Gradient")).collect();
    let blitters: Vec<&'static str> = raqote::verif::SITES.iter().cloned().filter(|s| s.starts_with("blitter:")).collect();
    let mut v: Vec<&'static str> = Vec::new();
    match prop {
        "C01" => v.extend(["add_edge:line", "add_edge:dropped_above_or_below", "add_edge:dropped_horizontal", "add_edge:starts_above_surface", "add_edge:dropped_after_stepping", "scan_edges:skipped_left_of_surface", "scan_edges:stopped_right_of_surface", "reset:nothing_added", "reset:cleared"]),
        "C02" | "C03" | "C18" | "C06" => {
            v.extend(shaders);
            v.extend(blitters);
        }
        "C05" => v.extend(["blitter:ShaderClipMaskBlitter", "blitter:ShaderClipBlendMaskBlitter", "blitter:ShaderMaskBlitter", "blitter:ShaderBlendMaskBlitter"]),
        "C08" => v.extend(["add_edge:curve", "add_quad:chopped", "add_quad:forced_monotonic", "add_quad:monotonic", "add_edge:starts_above_surface"]),
        "C11" => v.extend(["composite:singular_transform", "add_edge:curve"]),
        "C12" => v.extend(gradients),
        "C13" => v.extend(images),
        "C14" => v.extend(["fill_rect:fast_path", "fill_rect:path", "clear:fast_path", "clear:path", "blitter:ShaderBlendBlitter"]),
        _ => {}
    }
    v
}

fn hook_counters() -> J {
    let hits = raqote::verif::hits();
    J::Obj(raqote::verif::SITES.iter().zip(hits.iter()).map(|(n, h)| (n.to_string(), J::Int(*h as i64))).collect())
}
