//! C08 - curved paths fill their true interior (quads, cubics, arcs, any transform).
//!
//! Oracle: reference interpreter of the path semantics in f64, curves sampled finely, winding
//! number and distance to the outline at every pixel centre; only pixels whose whole square is
//! more than one pixel from the outline are asserted.

use crate::geom::*;
use crate::json::J;
use crate::prng::Rng;
use crate::runner::*;
use crate::scene::effective_clip;
use crate::util::*;
use raqote::*;

fn coord(rng: &mut Rng, size: f64) -> f32 {
    (match rng.below(10) {
        0 => rng.range(-size * 2., size * 3.),
        1 => rng.int(-2, size as i64 + 2) as f64,
        _ => rng.range(-3., size + 3.),
    }) as f32
}

pub fn gen_path(rng: &mut Rng, w: i32, h: i32, far: bool) -> Path {
    let (wf, hf) = (w as f64, h as f64);
    let mut pb = PathBuilder::new();
    let nsub = 1 + rng.below(2);
    // one pool of values for x and y: now and then a coordinate repeats an earlier one exactly (a control
    // point level with an end point, vertical and horizontal tangents, coincident points)
    let pool: std::cell::RefCell<Vec<f32>> = std::cell::RefCell::new(Vec::new());
    let c = |rng: &mut Rng, s: f64| -> f32 {
        let v = if !pool.borrow().is_empty() && rng.chance(0.12) {
            *rng.pick(&pool.borrow()[..])
        } else if far && rng.chance(0.3) {
            rng.range(-3500., 3500.) as f32
        } else {
            coord(rng, s)
        };
        pool.borrow_mut().push(v);
        v
    };
    let mut first = true;
    let mut last: Option<(f32, f32)> = None;
    for _ in 0..nsub {
        if !(first && rng.chance(0.1)) {
            // (now and then the new subpath starts exactly where the previous one stopped: the previous one is
            // closed by the fill all the same, and the two stay two contours)
            let (mx, my) = match last {
                Some(l) if rng.chance(0.12) => l,
                _ => (c(rng, wf), c(rng, hf)),
            };
            pb.move_to(mx, my);
            last = Some((mx, my));
        }
        first = false;
        let n = rng.int(1, 5);
        for _ in 0..n {
            match rng.below(10) {
                0 | 1 => {
                    let (x, y) = (c(rng, wf), c(rng, hf));
                    pb.line_to(x, y);
                    last = Some((x, y));
                }
                2 | 3 | 4 => {
                    let (cx, cy) = (c(rng, wf), c(rng, hf));
                    let end = if rng.chance(0.1) { last } else { None };
                    let (x, y) = end.unwrap_or_else(|| (c(rng, wf), c(rng, hf)));
                    pb.quad_to(cx, cy, x, y);
                    last = Some((x, y));
                }
                5 | 6 | 7 => {
                    let (x1, y1) = (c(rng, wf), c(rng, hf));
                    // coincident control points now and then
                    let (x2, y2) = if rng.chance(0.15) { (x1, y1) } else { (c(rng, wf), c(rng, hf)) };
                    // a loop: the curve ends exactly where it starts
                    let end = if rng.chance(0.12) { last } else { None };
                    let (ex, ey) = end.unwrap_or_else(|| (c(rng, wf), c(rng, hf)));
                    pb.cubic_to(x1, y1, x2, y2, ex, ey);
                    last = Some((ex, ey));
                    continue;
                }
                8 => {
                    let r = rng.range(0.5, wf.min(hf).max(2.)) as f32;
                    let sweep = if rng.chance(0.3) { *rng.pick(&[6.2831855f32, -6.2831855, 7.0, -7.0, 9.424778, -9.424778]) } else { rng.range(-7., 7.) as f32 };
                    pb.arc(rng.range(0., wf) as f32, rng.range(0., hf) as f32, r, rng.range(-7., 7.) as f32, sweep);
                    last = None;
                }
                _ => {
                    pb.close();
                    last = None;
                    // a command right after close continues from the subpath start
                    if rng.chance(0.5) {
                        pb.quad_to(c(rng, wf), c(rng, hf), c(rng, wf), c(rng, hf));
                    } else {
                        pb.line_to(c(rng, wf), c(rng, hf));
                    }
                }
            }
        }
        if rng.chance(0.4) {
            pb.close();
        }
    }
    let mut p = pb.finish();
    if rng.chance(0.5) {
        p.winding = Winding::EvenOdd;
    }
    p
}

fn gen_transform(rng: &mut Rng, w: i32, h: i32) -> Transform {
    let (cx, cy) = (w as f32 / 2., h as f32 / 2.);
    if rng.chance(0.08) {
        return special_transform(rng, w as f64, h as f64);
    }
    match rng.below(8) {
        0 | 1 => Transform::identity(),
        2 => Transform::translation(rng.range(-4., 4.) as f32, rng.range(-4., 4.) as f32),
        3 => Transform::translation(-cx, -cy).then_rotate(euclid::Angle::radians(rng.range(0., 6.28) as f32)).then_translate(euclid::vec2(cx, cy)),
        4 => Transform::translation(-cx, -cy).then_scale(rng.range(0.3, 3.) as f32, rng.range(0.3, 3.) as f32).then_translate(euclid::vec2(cx, cy)),
        5 => Transform::translation(-cx, -cy).then(&Transform::new(1., rng.range(-1., 1.) as f32, rng.range(-1., 1.) as f32, 1., 0., 0.)).then_translate(euclid::vec2(cx, cy)),
        6 => Transform::translation(-cx, -cy).then_scale(-1., 1.).then_translate(euclid::vec2(cx, cy)),
        _ => Transform::translation(-cx, -cy).then_rotate(euclid::Angle::radians(rng.range(0., 6.28) as f32)).then_scale(rng.range(0.5, 2.) as f32, -rng.range(0.5, 2.) as f32).then_translate(euclid::vec2(cx, cy)),
    }
}

pub struct FillCheck {
    pub inside: u64,
    pub outside: u64,
    pub skipped: u64,
    pub violation: Option<String>,
    /// every pixel that failed (the message above describes the first)
    pub failed: Vec<(i32, i32)>,
}

/// compares coverage bytes (255 expected inside, 0 outside) with the winding oracle
pub fn check_fill(cov: &[u8], w: i32, h: i32, path: &Path, t: &Transform, margin: f64) -> FillCheck {
    let subs = transform_subs(&subpaths(path, 256), &T64::from(t));
    check_fill_subs(cov, w, h, &subs, path.winding == Winding::EvenOdd, margin)
}

/// the same against an outline given directly in device space
pub fn check_fill_subs(cov: &[u8], w: i32, h: i32, subs: &[Sub], evenodd: bool, margin: f64) -> FillCheck {
    let r = margin + std::f64::consts::FRAC_1_SQRT_2 + 1e-3;
    let mut res = FillCheck { inside: 0, outside: 0, skipped: 0, violation: None, failed: Vec::new() };
    for y in 0..h {
        for x in 0..w {
            let c = P::new(x as f64 + 0.5, y as f64 + 0.5);
            if dist_to_outline(&subs, c, true) <= r {
                res.skipped += 1;
                continue;
            }
            let wn = winding_number(&subs, c);
            let inside = if evenodd { wn & 1 != 0 } else { wn != 0 };
            let v = cov[(y * w + x) as usize];
            if inside {
                res.inside += 1;
                if v != 255 {
                    res.failed.push((x, y));
                    if res.violation.is_none() {
                        res.violation = Some(format!("pixel ({},{}) is inside the shape (winding number {}) more than {} px from its outline but has coverage {}", x, y, wn, margin, v));
                    }
                }
            } else {
                res.outside += 1;
                if v != 0 {
                    res.failed.push((x, y));
                    if res.violation.is_none() {
                        res.violation = Some(format!("pixel ({},{}) is outside the shape (winding number {}) more than {} px from its outline but has coverage {}", x, y, wn, margin, v));
                    }
                }
            }
        }
    }
    res
}

/// Known finding `shallow-hairpin-tip-overshoot`: the places where it can occur. A curve piece that turns round in x
/// (dx/dt = 0 inside the piece) while it runs almost level there looks, near that tip T, like the parabola
/// x = Tx -+ k (y - Ty)^2; the rasteriser walks a curve's chords one sample row (1/4 px) at a time, starting each chord
/// from a vertex that lies between two sample rows, and so runs up to a sample row past the end of a chord - along
/// the chord, which at such a tip is a step of several pixels in x beyond the tip. Returns (T, k) in device space for
/// every tip with k >= 32 px per px^2 (a sixteenth of a pixel in y is then more than an eighth of a pixel in x... and
/// a whole sample row is 2 px and more).
fn shallow_hairpin_tips(path: &Path, t: &Transform) -> Vec<(P, f64)> {
    let t64 = T64::from(t);
    let mut tips = Vec::new();
    let mut cur: Option<P> = None;
    let mut start: Option<P> = None;
    let map = |p: Point| -> P { let (x, y) = t64.apply(p.x as f64, p.y as f64); P::new(x, y) };
    let mut scan = |pts: &[P]| {
        // pts: control polygon of a quadratic (3) or cubic (4) in device space
        let eval = |u: f64| -> (P, P, P) {
            if pts.len() == 3 {
                let m = 1. - u;
                let p = pts[0].mul(m * m).add(pts[1].mul(2. * m * u)).add(pts[2].mul(u * u));
                let d = pts[1].sub(pts[0]).mul(2. * m).add(pts[2].sub(pts[1]).mul(2. * u));
                let dd = pts[0].sub(pts[1].mul(2.)).add(pts[2]).mul(2.);
                (p, d, dd)
            } else {
                let m = 1. - u;
                let p = pts[0].mul(m * m * m).add(pts[1].mul(3. * m * m * u)).add(pts[2].mul(3. * m * u * u)).add(pts[3].mul(u * u * u));
                let d = pts[1].sub(pts[0]).mul(3. * m * m).add(pts[2].sub(pts[1]).mul(6. * m * u)).add(pts[3].sub(pts[2]).mul(3. * u * u));
                let dd = pts[2].sub(pts[1].mul(2.)).add(pts[0]).mul(6. * m).add(pts[3].sub(pts[2].mul(2.)).add(pts[1]).mul(6. * u));
                (p, d, dd)
            }
        };
        let n = 512;
        let mut prev = eval(0.).1.x;
        for i in 1..=n {
            let u = i as f64 / n as f64;
            let dx = eval(u).1.x;
            if (prev < 0.) != (dx < 0.) || dx == 0. {
                let (p, d, dd) = eval(u - 0.5 / n as f64);
                let k = dd.x.abs() / (2. * d.y * d.y).max(1e-300);
                if k >= 32. {
                    tips.push((p, k));
                }
            }
            prev = dx;
        }
    };
    for op in &path.ops {
        match *op {
            PathOp::MoveTo(p) => { cur = Some(map(p)); start = cur; }
            PathOp::LineTo(p) => { if cur.is_none() { start = Some(map(p)); } cur = Some(map(p)); }
            PathOp::Close => { cur = start; }
            PathOp::QuadTo(c, p) => {
                let a = cur.unwrap_or(map(c));
                if cur.is_none() { start = Some(a); }
                scan(&[a, map(c), map(p)]);
                cur = Some(map(p));
            }
            PathOp::CubicTo(c1, c2, p) => {
                let a = cur.unwrap_or(map(c1));
                if cur.is_none() { start = Some(a); }
                scan(&[a, map(c1), map(c2), map(p)]);
                cur = Some(map(p));
            }
        }
    }
    tips
}

/// a failed fill check is attributed to the known finding when every failing pixel lies next to such a tip: within
/// 2 px of its height and no further beyond or before it in x than the parabola moves in one sample row at that
/// height difference, plus a pixel
fn only_shallow_hairpin_tips(res: &FillCheck, path: &Path, t: &Transform) -> bool {
    if res.failed.is_empty() {
        return false;
    }
    let tips = shallow_hairpin_tips(path, t);
    !tips.is_empty()
        && res.failed.iter().all(|(x, y)| {
            let c = P::new(*x as f64 + 0.5, *y as f64 + 0.5);
            tips.iter().any(|(tp, k)| (c.y - tp.y).abs() <= 2. && (c.x - tp.x).abs() <= (k * 0.25 * 0.75 + 2.).min(24.))
        })
}

pub fn run(ctx: &Ctx) -> Outcome {
    let mut out = Outcome::new(
        "random paths mixing move/line/quad/cubic/arc/close (non-monotonic, looping, cusped, coincident control points, commands right after close, missing MoveTo, 1/8 with control points out to +-3500), both winding rules, invertible transforms (translation, rotation, anisotropic scale, shear, mirror), both AA modes, \
         filled white on transparent and used as clip paths; every pixel whose square is more than 1 px from the exact outline (f64, 256 samples per curve) must be 255 if the winding rule says inside and 0 otherwise. Non-trivial: inside and outside pixels asserted; distinct = hash of the case.",
    );
    let secs = if ctx.quick() { 40. } else { 900. };
    // the known finding's own input (a level hairpin 4500 px long whose tip lies on the surface), as a fill and as a clip
    run_cases(ctx, &mut out, SubSpec { name: "directed", cases: 2, exhaustive: false, max_secs: 30. }, |i, want, st| {
        let mut pb = PathBuilder::new();
        pb.move_to(3.744384, 17.724064);
        pb.close();
        pb.line_to(-2286.2268, 11.823865);
        pb.quad_to(2240.1604, 8.282992, -2136.1448, 16.746912);
        pb.quad_to(2478.035, 1.0, 17.051376, 0.7944523);
        let path = pb.finish();
        let t = Transform::identity();
        let (w, h) = (43, 17);
        let as_clip = i == 1;
        let mut dt = DrawTarget::new(w, h);
        let cov: Vec<u8> = if as_clip {
            dt.push_clip(&path);
            let c = effective_clip(&mut dt, w, h);
            dt.pop_clip();
            c
        } else {
            dt.fill(&path, &Source::Solid(WHITE), &opts(BlendMode::SrcOver, 1., true));
            dt.get_data().iter().map(|p| (p >> 24) as u8).collect()
        };
        let res = check_fill(&cov, w, h, &path, &t, 1.0);
        st.add("px_inside_asserted", res.inside);
        st.add("px_outside_asserted", res.outside);
        let mut co = CaseOut::default();
        co.hash = i + 1;
        co.nontrivial = res.outside > 0;
        if res.violation.is_some() && ctx.known.active("C08", "shallow-hairpin-tip-overshoot") && only_shallow_hairpin_tips(&res, &path, &t) {
            co.known.push(("C08:shallow-hairpin-tip-overshoot".to_string(), res.violation.clone().unwrap()));
        } else if let Some(v) = res.violation {
            co.viol("C08", format!("{}: {}", if as_clip { "push_clip" } else { "fill" }, v));
        }
        if want || !co.violations.is_empty() {
            let mut d = J::obj();
            d.set("surface", J::s(&format!("{}x{}", w, h)));
            d.set("path", J::s(&path_str(&path)));
            d.set("used_as_clip_path", J::Bool(as_clip));
            co.desc = Some(d);
        }
        co
    });
    run_cases(ctx, &mut out, SubSpec { name: "curved_fills_and_clips", cases: ctx.n(20_000, 1_000_000), exhaustive: false, max_secs: secs }, |i, want, st| {
        let mut rng = ctx.rng("curved_fills_and_clips", i);
        let w = rng.int(6, 48) as i32;
        let h = rng.int(6, 48) as i32;
        let far = rng.chance(0.125);
        let path = gen_path(&mut rng, w, h, far);
        let t = if far { Transform::identity() } else { gen_transform(&mut rng, w, h) };
        let aa = rng.chance(0.75);
        let as_clip = rng.chance(0.25);
        let mut dt = DrawTarget::new(w, h);
        // one case in ten is drawn with user space magnified by a power of two and the path shrunk by the same
        // factor (exact in f32; C11 checks that fills are bit-identical under it); the oracle keeps the case as written
        let scaled = !far && i % 10 == 3;
        let (real_t, real_path) = if scaled {
            let k = (2.0f32).powi(*rng.pick(&[-14i32, -13, -12, -11, -10, -9, 9, 10, 11, 12]));
            st.add("fills_drawn_under_a_power_of_two_user_scale", 1);
            (Transform::scale(k, k).then(&t), path.clone().transform(&Transform::scale(1. / k, 1. / k)))
        } else {
            (t, path.clone())
        };
        dt.set_transform(&real_t);
        let cov: Vec<u8> = if as_clip {
            dt.push_clip(&real_path);
            let c = effective_clip(&mut dt, w, h);
            dt.pop_clip();
            c
        } else {
            dt.fill(&real_path, &Source::Solid(WHITE), &opts(BlendMode::SrcOver, 1., aa));
            dt.get_data().iter().map(|p| (p >> 24) as u8).collect()
        };
        let res = check_fill(&cov, w, h, &path, &t, 1.0);
        st.add("px_inside_asserted", res.inside);
        st.add("px_outside_asserted", res.outside);
        st.add("px_near_outline_not_asserted", res.skipped);
        st.add(if as_clip { "clip_paths" } else { "fills" }, 1);
        let mut co = CaseOut::default();
        co.hash = crate::prng::hash_str(&format!("{:?}{:?}{}{}", path, t, aa, as_clip));
        co.nontrivial = res.inside > 0 && res.outside > 0;
        if res.violation.is_some() && ctx.known.active("C08", "shallow-hairpin-tip-overshoot") && only_shallow_hairpin_tips(&res, &path, &t) {
            co.known.push(("C08:shallow-hairpin-tip-overshoot".to_string(), res.violation.clone().unwrap()));
        } else if let Some(v) = res.violation {
            co.viol("C08", format!("{}: {}", if as_clip { "push_clip" } else { "fill" }, v));
        }
        if want || !co.violations.is_empty() {
            let mut d = J::obj();
            d.set("surface", J::s(&format!("{}x{}", w, h)));
            d.set("path", J::s(&path_str(&path)));
            d.set("transform", J::s(&transform_str(&t)));
            d.set("antialias", J::Bool(aa));
            d.set("used_as_clip_path", J::Bool(as_clip));
            co.desc = Some(d);
        }
        co
    });
    // shapes made of arcs, judged against the circles themselves (not against what PathBuilder::arc emitted):
    // discs, pies, rings whose hole depends on the direction of each circle, full turns and more of either sign
    run_cases(ctx, &mut out, SubSpec { name: "arc_shapes_against_true_circles", cases: ctx.n(6_000, 300_000), exhaustive: false, max_secs: secs }, |i, want, st| {
        let mut rng = ctx.rng("arc_shapes_against_true_circles", i);
        let w = rng.int(12, 48) as i32;
        let h = rng.int(12, 48) as i32;
        let (wf, hf) = (w as f64, h as f64);
        let t = if rng.chance(0.5) { Transform::identity() } else { gen_transform(&mut rng, w, h) };
        let mut pb = PathBuilder::new();
        let mut subs: Vec<Sub> = Vec::new();
        let mut calls = String::new();
        let mut rmax: f64 = 0.;
        let concentric = rng.chance(0.5);
        let (ccx, ccy) = (rng.range(wf * 0.3, wf * 0.7) as f32, rng.range(hf * 0.3, hf * 0.7) as f32);
        let nsub = rng.int(1, 3);
        for k in 0..nsub {
            let (cx, cy) = if concentric { (ccx, ccy) } else { (rng.range(0., wf) as f32, rng.range(0., hf) as f32) };
            let r = if concentric { (wf.min(hf) * 0.45 / (k as f64 + 1.)) as f32 } else { rng.range(2., wf.min(hf) * 0.5) as f32 };
            rmax = rmax.max(r as f64);
            let start = *rng.pick(&[0.0f32, 1.0, -2.5, 3.1415927, 7.5, -0.3]);
            let sweep = match rng.below(4) {
                0 | 1 => *rng.pick(&[6.2831855f32, -6.2831855, 7.0, -7.0, 12.566371, -12.566371, 100., -100.]),
                _ => rng.range(-6.2, 6.2) as f32,
            };
            let mut pts: Vec<P> = Vec::new();
            // the subpath starts where the arc starts, or somewhere else (then a line leads to the arc's start)
            if rng.chance(0.4) {
                let (mx, my) = (rng.range(0., wf) as f32, rng.range(0., hf) as f32);
                pb.move_to(mx, my);
                pts.push(P::new(mx as f64, my as f64));
                calls += &format!("move_to({},{}) ", mx, my);
            } else {
                let (sx, sy) = (cx as f64 + r as f64 * (start as f64).cos(), cy as f64 + r as f64 * (start as f64).sin());
                pb.move_to(sx as f32, sy as f32);
                pts.push(P::new(sx as f32 as f64, sy as f32 as f64));
                calls += &format!("move_to({},{}) ", sx as f32, sy as f32);
            }
            pb.arc(cx, cy, r, start, sweep);
            calls += &format!("arc({},{},{},{},{}) close ", cx, cy, r, start, sweep);
            let sw = (sweep as f64).max(-2. * std::f64::consts::PI).min(2. * std::f64::consts::PI);
            let steps = 240;
            for j in 0..=steps {
                let a = start as f64 + sw * j as f64 / steps as f64;
                pts.push(P::new(cx as f64 + r as f64 * a.cos(), cy as f64 + r as f64 * a.sin()));
            }
            pb.close();
            subs.push(Sub { pts, closed: true });
        }
        let mut path = pb.finish();
        let evenodd = rng.chance(0.3);
        if evenodd {
            path.winding = Winding::EvenOdd;
        }
        let aa = rng.chance(0.75);
        let as_clip = rng.chance(0.2);
        let mut dt = DrawTarget::new(w, h);
        dt.set_transform(&t);
        let cov: Vec<u8> = if as_clip {
            dt.push_clip(&path);
            let c = effective_clip(&mut dt, w, h);
            dt.pop_clip();
            c
        } else {
            dt.fill(&path, &Source::Solid(WHITE), &opts(BlendMode::SrcOver, 1., aa));
            dt.get_data().iter().map(|p| (p >> 24) as u8).collect()
        };
        let t64 = T64::from(&t);
        let dsubs = transform_subs(&subs, &t64);
        // the emitted curve may be off the circle by 0.5% of the radius (C20)
        let res = check_fill_subs(&cov, w, h, &dsubs, evenodd, 1.0 + 0.006 * rmax * t64.max_scale());
        st.add("arc_px_inside_asserted", res.inside);
        st.add("arc_px_outside_asserted", res.outside);
        let mut co = CaseOut::default();
        co.hash = crate::prng::hash_str(&format!("{}{:?}{}{}{}", calls, t, aa, as_clip, evenodd));
        co.nontrivial = res.inside > 0 && res.outside > 0;
        if let Some(v) = res.violation {
            co.viol("C08", format!("{} of arcs: {}", if as_clip { "push_clip" } else { "fill" }, v));
        }
        if want || !co.violations.is_empty() {
            let mut d = J::obj();
            d.set("surface", J::s(&format!("{}x{}", w, h)));
            d.set("calls", J::s(&calls));
            d.set("winding", J::s(if evenodd { "EvenOdd" } else { "NonZero" }));
            d.set("transform", J::s(&transform_str(&t)));
            d.set("antialias", J::Bool(aa));
            d.set("used_as_clip_path", J::Bool(as_clip));
            co.desc = Some(d);
        }
        co
    });
    // curves thousands of pixels long whose turning point in y (or x) lies within a few thousandths of their
    // parameter range from one end (the control point overshoots that end by a few pixels); the surface looks at
    // the middle of the curve, where a curve whose overshoot was handled wrongly is off by half the overshoot
    run_cases(ctx, &mut out, SubSpec { name: "long_curves_turning_right_at_an_end", cases: ctx.n(2_500, 40_000), exhaustive: false, max_secs: secs }, |i, want, st| {
        let mut rng = ctx.rng("long_curves_turning_right_at_an_end", i);
        let w = rng.int(24, 48) as i32;
        let h = rng.int(24, 48) as i32;
        let len = rng.range(800., 7000.);
        // the curve runs along the "long" axis from -f*len to (1-f)*len, where it passes the middle of the surface
        let f = rng.range(0.2, 0.8);
        let a = -f * len;
        let c = a + len;
        let over = rng.range(0.3, (len / 150.).min(45.));
        let b = a - over;
        // across: the curve runs diagonally (a displacement along the long axis moves it sideways too), gently bent
        let run = len * rng.range(0.3, 1.1) * if rng.chance(0.5) { 1. } else { -1. };
        let u0 = -f * run;
        let u2 = u0 + run;
        let u1 = u0 + run * rng.range(0.3, 0.7);
        let cubic = rng.chance(0.3);
        let b2 = if cubic { rng.range(a + len * 0.3, a + len * 0.9) } else { 0. };
        let u3 = u0 + run * rng.range(0.5, 0.9);
        // or an almost straight cubic: control points a third and two thirds of the way along the chord, a few
        // pixels to its side (a bulge of a few pixels over thousands of pixels of length)
        let shallow = rng.chance(0.25);
        let (cubic, b, b2, u1, u3) = if shallow {
            let d = |rng: &mut Rng| rng.range(2., 14.) * if rng.chance(0.7) { 1. } else { -1. };
            (true, a + len / 3., a + 2. * len / 3., u0 + run / 3. + d(&mut rng), u0 + 2. * run / 3. + d(&mut rng))
        } else {
            (cubic, b, b2, u1, u3)
        };
        // long axis position -> parameter at the middle of the surface (bisection on the monotonic part)
        let along = |t: f64| -> f64 {
            if cubic {
                let m = 1. - t;
                m * m * m * a + 3. * m * m * t * b + 3. * m * t * t * b2 + t * t * t * c
            } else {
                let m = 1. - t;
                m * m * a + 2. * m * t * b + t * t * c
            }
        };
        let across = |t: f64| -> f64 {
            if cubic {
                let m = 1. - t;
                m * m * m * u0 + 3. * m * m * t * u1 + 3. * m * t * t * u3 + t * t * t * u2
            } else {
                let m = 1. - t;
                m * m * u0 + 2. * m * t * u1 + t * t * u2
            }
        };
        let (mut lo, mut hi) = (0.05f64, 1.0f64);
        for _ in 0..60 {
            let mid = (lo + hi) / 2.;
            if along(mid) < 0. { lo = mid } else { hi = mid }
        }
        let shift = across(lo);
        let vertical = rng.chance(0.7);
        let reversed = rng.chance(0.4);
        let flip = rng.chance(0.5);
        // device point for (along, across)
        let (mw, mh) = (w as f64 / 2. + rng.range(-6., 6.), h as f64 / 2. + rng.range(-6., 6.));
        let dev = |al: f64, ac: f64| -> (f32, f32) {
            let al = if flip { -al } else { al };
            if vertical { ((ac - shift + mw) as f32, (al + mh) as f32) } else { ((al + mw) as f32, (ac - shift + mh) as f32) }
        };
        let side = if rng.chance(0.5) { 2500. } else { -2500. };
        let (p0, p1, p2) = (dev(a, u0), dev(b, u1), dev(c, u2));
        let p1b = dev(b2, u3);
        let (q0, q2) = (dev(a, u0 + side), dev(c, u2 + side));
        let mut pb = PathBuilder::new();
        if !reversed {
            pb.move_to(p0.0, p0.1);
            if cubic { pb.cubic_to(p1.0, p1.1, p1b.0, p1b.1, p2.0, p2.1) } else { pb.quad_to(p1.0, p1.1, p2.0, p2.1) }
            pb.line_to(q2.0, q2.1);
            pb.line_to(q0.0, q0.1);
        } else {
            pb.move_to(p2.0, p2.1);
            if cubic { pb.cubic_to(p1b.0, p1b.1, p1.0, p1.1, p0.0, p0.1) } else { pb.quad_to(p1.0, p1.1, p0.0, p0.1) }
            pb.line_to(q0.0, q0.1);
            pb.line_to(q2.0, q2.1);
        }
        if rng.chance(0.5) {
            pb.close();
        }
        let mut path = pb.finish();
        if rng.chance(0.4) {
            path.winding = Winding::EvenOdd;
        }
        let t = Transform::identity();
        let aa = rng.chance(0.75);
        let as_clip = rng.chance(0.2);
        let mut dt = DrawTarget::new(w, h);
        let cov: Vec<u8> = if as_clip {
            dt.push_clip(&path);
            let c = effective_clip(&mut dt, w, h);
            dt.pop_clip();
            c
        } else {
            dt.fill(&path, &Source::Solid(WHITE), &opts(BlendMode::SrcOver, 1., aa));
            dt.get_data().iter().map(|p| (p >> 24) as u8).collect()
        };
        // a curve this long needs more samples for the same accuracy of the reference outline
        let subs = transform_subs(&subpaths(&path, 2048), &T64::from(&t));
        let res = check_fill_subs(&cov, w, h, &subs, path.winding == Winding::EvenOdd, 1.0);
        st.add("long_curve_px_inside_asserted", res.inside);
        st.add("long_curve_px_outside_asserted", res.outside);
        if shallow {
            st.add("long_almost_straight_cubics", 1);
        }
        st.add(if over / (len + 2. * over) < 1. / 256. { "long_curves_turning_within_1_256th_of_an_end" } else { "long_curves_turning_further_in" }, 1);
        let mut co = CaseOut::default();
        co.hash = crate::prng::hash_str(&format!("{:?}{}{}", path, aa, as_clip));
        co.nontrivial = res.inside > 0 && res.outside > 0;
        if res.violation.is_some() && ctx.known.active("C08", "shallow-hairpin-tip-overshoot") && only_shallow_hairpin_tips(&res, &path, &t) {
            co.known.push(("C08:shallow-hairpin-tip-overshoot".to_string(), res.violation.clone().unwrap()));
        } else if let Some(v) = res.violation {
            co.viol("C08", format!("{} of a long curve: {}", if as_clip { "push_clip" } else { "fill" }, v));
        }
        if want || !co.violations.is_empty() {
            let mut d = J::obj();
            d.set("surface", J::s(&format!("{}x{}", w, h)));
            d.set("path", J::s(&path_str(&path)));
            d.set("antialias", J::Bool(aa));
            d.set("used_as_clip_path", J::Bool(as_clip));
            co.desc = Some(d);
        }
        co
    });
    // subpaths that end a hair's breadth (1e-6 .. 3e-4 px) away from where they started, with the start on or next to
    // a sample row, and another shape to their right: the closing edge is tiny but it is an edge, and without it
    // the winding count of that sample row is off all the way to the next shape
    run_cases(ctx, &mut out, SubSpec { name: "subpaths_closed_up_to_float_noise", cases: ctx.n(6_000, 200_000), exhaustive: false, max_secs: secs }, |i, want, st| {
        let mut rng = ctx.rng("subpaths_closed_up_to_float_noise", i);
        let w = rng.int(24, 48) as i32;
        let h = rng.int(12, 40) as i32;
        let mut pb = PathBuilder::new();
        // the start: on a quarter-pixel row (where the sample rows are), an eighth, or anywhere
        let sy = match rng.below(4) {
            0 | 1 => rng.int(8, 4 * h as i64 - 8) as f32 / 4.,
            2 => rng.int(16, 8 * h as i64 - 16) as f32 / 8.,
            _ => rng.range(2., h as f64 - 2.) as f32,
        };
        let sx = rng.range(2., 10.) as f32;
        let noise = |rng: &mut Rng| -> f32 {
            let m = *rng.pick(&[1e-6f32, 4e-6, 1e-5, 3e-5, 1e-4, 3e-4]);
            if rng.chance(0.5) { m } else { -m }
        };
        let arc = rng.chance(0.35);
        if arc {
            // a full turn of PathBuilder::arc: its end is the start up to rounding
            let r = rng.range(2., 6.) as f32;
            let sweep = if rng.chance(0.5) { 6.2831855f32 } else { -6.2831855 };
            pb.move_to(sx + r, sy);
            pb.arc(sx, sy, r, 0., sweep);
        } else {
            pb.move_to(sx, sy);
            let n = rng.int(2, 4);
            for k in 0..n {
                let a = (k as f64 + 1.) / (n as f64 + 1.) * 6.28 + rng.range(-0.3, 0.3);
                let r = rng.range(2., 7.);
                let (x, y) = ((sx as f64 + 3. + r * a.cos()) as f32, (sy as f64 + r * a.sin() * if k % 2 == 0 { 1. } else { -1. }) as f32);
                if rng.chance(0.3) { pb.quad_to(x + 1., y - 1., x, y) } else { pb.line_to(x, y) }
            }
            let (ex, ey) = (sx + if rng.chance(0.5) { 0. } else { noise(&mut rng) }, sy + noise(&mut rng));
            pb.line_to(ex, ey);
        }
        match rng.below(3) {
            0 => pb.close(),
            _ => {} // closed by the fill (implicitly at the next MoveTo or at the end)
        }
        // the shape to the right
        let x1 = rng.range(w as f64 * 0.55, w as f64 - 6.) as f32;
        if rng.chance(0.8) {
            let (ya, yb) = (rng.range(-2., 4.) as f32, rng.range(h as f64 - 4., h as f64 + 2.) as f32);
            pb.move_to(x1, ya);
            if rng.chance(0.5) {
                pb.line_to(x1 + 4., ya);
                pb.line_to(x1 + 4., yb);
                pb.line_to(x1, yb);
            } else {
                pb.line_to(x1, yb);
                pb.line_to(x1 + 4., yb);
                pb.line_to(x1 + 4., ya);
            }
            pb.close();
        }
        let mut path = pb.finish();
        if rng.chance(0.4) {
            path.winding = Winding::EvenOdd;
        }
        let t = if rng.chance(0.7) { Transform::identity() } else { Transform::translation(rng.int(-2, 2) as f32, rng.int(-8, 8) as f32 / 4.) };
        let aa = rng.chance(0.7);
        let as_clip = rng.chance(0.2);
        let mut dt = DrawTarget::new(w, h);
        dt.set_transform(&t);
        let cov: Vec<u8> = if as_clip {
            dt.push_clip(&path);
            let c = effective_clip(&mut dt, w, h);
            dt.pop_clip();
            c
        } else {
            dt.fill(&path, &Source::Solid(WHITE), &opts(BlendMode::SrcOver, 1., aa));
            dt.get_data().iter().map(|p| (p >> 24) as u8).collect()
        };
        let res = check_fill(&cov, w, h, &path, &t, 1.0);
        st.add("almost_closed_px_inside_asserted", res.inside);
        st.add("almost_closed_px_outside_asserted", res.outside);
        st.add(if arc { "almost_closed_full_turn_arcs" } else { "almost_closed_outlines" }, 1);
        let mut co = CaseOut::default();
        co.hash = crate::prng::hash_str(&format!("{:?}{:?}{}{}", path, t, aa, as_clip));
        co.nontrivial = res.inside > 0 && res.outside > 0;
        if res.violation.is_some() && ctx.known.active("C08", "shallow-hairpin-tip-overshoot") && only_shallow_hairpin_tips(&res, &path, &t) {
            co.known.push(("C08:shallow-hairpin-tip-overshoot".to_string(), res.violation.clone().unwrap()));
        } else if let Some(v) = res.violation {
            co.viol("C08", format!("{} of an almost closed outline: {}", if as_clip { "push_clip" } else { "fill" }, v));
        }
        if want || !co.violations.is_empty() {
            let mut d = J::obj();
            d.set("surface", J::s(&format!("{}x{}", w, h)));
            d.set("path", J::s(&path_str(&path)));
            d.set("transform", J::s(&transform_str(&t)));
            d.set("antialias", J::Bool(aa));
            d.set("used_as_clip_path", J::Bool(as_clip));
            co.desc = Some(d);
        }
        co
    });
    out.assume("in the mixed random paths arcs are evaluated through the quadratic control points PathBuilder::arc emitted (their own geometry is C20's subject); the arc_shapes workload judges arcs against the true circles");
    out
}
