//! C19 - pixel word layout, byte views and PNG export agree.

use crate::json::J;
use crate::prng::Rng;
use crate::runner::*;
use crate::util::*;
use raqote::*;

fn work_dir() -> String {
    let d = std::env::var("RV_WORK_DIR").unwrap_or_else(|_| "/verif/.work".to_string());
    let _ = std::fs::create_dir_all(&d);
    d
}

fn decode_png(path: &str) -> Result<(u32, u32, Vec<u8>, png::ColorType, png::BitDepth), String> {
    let f = std::fs::File::open(path).map_err(|e| e.to_string())?;
    let dec = png::Decoder::new(std::io::BufReader::new(f));
    let mut reader = dec.read_info().map_err(|e| e.to_string())?;
    let mut buf = vec![0; reader.output_buffer_size()];
    let info = reader.next_frame(&mut buf).map_err(|e| e.to_string())?;
    buf.truncate(info.buffer_size());
    Ok((info.width, info.height, buf, info.color_type, info.bit_depth))
}

fn check_surface(w: i32, h: i32, pixels: &[u32], st: &mut Stats, with_png: bool, tag: u64) -> Option<String> {
    let n = (w * h) as usize;
    // from_vec / get_data / into_vec round trip
    let dt = DrawTarget::from_vec(w, h, pixels.to_vec());
    if dt.get_data() != pixels {
        return Some("from_vec changed the pixels".to_string());
    }
    if dt.width() != w || dt.height() != h {
        return Some("width()/height() do not match the constructor".to_string());
    }
    // byte view: B, G, R, A of each word
    let bytes = dt.get_data_u8();
    if bytes.len() != 4 * n {
        return Some(format!("get_data_u8 has {} bytes for {} pixels", bytes.len(), n));
    }
    for i in 0..n {
        let p = pixels[i];
        let want = [(p & 0xff) as u8, ((p >> 8) & 0xff) as u8, ((p >> 16) & 0xff) as u8, (p >> 24) as u8];
        st.add("byte_view_px_checked", 1);
        if bytes[4 * i..4 * i + 4] != want {
            return Some(format!("get_data_u8()[{}..{}] = {:?} but word {} = {} should read B,G,R,A = {:?}", 4 * i, 4 * i + 4, &bytes[4 * i..4 * i + 4], i, hex(p), want));
        }
    }
    let v = dt.into_vec();
    if v != pixels {
        return Some("into_vec returned different pixels".to_string());
    }
    // from_backing / into_inner, writes through one view are visible through the others
    let mut dt = DrawTarget::from_backing(w, h, pixels.to_vec());
    if n > 0 {
        let k = (tag as usize) % n;
        dt.get_data_u8_mut()[4 * k] = 0x11; // B
        dt.get_data_u8_mut()[4 * k + 1] = 0x22; // G
        dt.get_data_u8_mut()[4 * k + 2] = 0x33; // R
        dt.get_data_u8_mut()[4 * k + 3] = 0x44; // A
        if dt.get_data()[k] != 0x44332211 {
            return Some(format!("bytes written through get_data_u8_mut read back as {} through get_data (expected 0x44332211)", hex(dt.get_data()[k])));
        }
        let k2 = (k + 1) % n;
        dt.get_data_mut()[k2] = 0x80706050;
        let b = dt.get_data_u8();
        if b[4 * k2..4 * k2 + 4] != [0x50, 0x60, 0x70, 0x80] {
            return Some("a word written through get_data_mut is not visible through get_data_u8".to_string());
        }
        st.add("cross_view_writes_checked", 2);
        let inner = dt.into_inner();
        let mut want = pixels.to_vec();
        want[k] = 0x44332211;
        want[k2] = 0x80706050;
        if inner != want {
            return Some("into_inner returned a buffer that differs from what was written".to_string());
        }
    } else {
        let _ = dt.into_inner();
    }
    // a surface over a slice that starts at an odd word of a larger allocation (half-aligned for 8 byte access)
    for off in 0..2usize {
        let mut store = vec![0xdeadbeefu32; n + 3];
        store[off..off + n].copy_from_slice(pixels);
        {
            let dt = DrawTarget::from_backing(w, h, &mut store[off..off + n]);
            if dt.get_data() != pixels {
                return Some("from_backing over a sub-slice shows different pixels".to_string());
            }
            if with_png && w > 0 && h > 0 {
                let path = format!("{}/c19-{}-{}-s{}.png", work_dir(), std::process::id(), tag, off);
                let res = dt.write_png(&path);
                let dec = decode_png(&path);
                let _ = std::fs::remove_file(&path);
                if let (Ok(()), Ok((_, _, data, _, _))) = (res, dec) {
                    for i in 0..n {
                        let c = ch(pixels[i]);
                        let a = c[0];
                        let un = |v: i32| -> u8 { if a > 0 { (v * 255 / a) as u8 } else { v as u8 } };
                        if data[4 * i..4 * i + 4] != [un(c[1]), un(c[2]), un(c[3]), a as u8] {
                            return Some(format!("PNG of a surface backed by a slice at word offset {}: pixel {} = {:?} for the word {}", off, i, &data[4 * i..4 * i + 4], hex(pixels[i])));
                        }
                    }
                    st.add("png_files_checked", 1);
                } else {
                    return Some(format!("write_png/decode failed for a slice-backed surface at word offset {}", off));
                }
            }
        }
        if store[..off].iter().chain(store[off + n..].iter()).any(|p| *p != 0xdeadbeef) {
            return Some("a slice-backed surface wrote outside its slice".to_string());
        }
    }
    // from_vec: a longer recycled vector is cut to width*height, a shorter one is extended with zeros
    {
        let mut longer = pixels.to_vec();
        longer.extend_from_slice(&[0x11223344, 0x55667788, 0x99aabbcc]);
        let dt = DrawTarget::from_vec(w, h, longer);
        if dt.get_data() != pixels || dt.get_data_u8().len() != 4 * n {
            return Some(format!("from_vec with a longer vector exposes {} pixels for a {}x{} surface", dt.get_data().len(), w, h));
        }
        if dt.into_vec().len() != n {
            return Some("into_vec after from_vec with a longer vector returns more than width*height pixels".to_string());
        }
        if n >= 2 {
            // a recycled vector: shorter than needed but with the capacity (and the stale contents) of a larger one
            let mut recycled = pixels.to_vec();
            for p in recycled.iter_mut() {
                *p |= 0x01000001;
            }
            recycled.truncate(n / 2);
            let keep = recycled.clone();
            let dt = DrawTarget::from_vec(w, h, recycled);
            let d = dt.get_data();
            if d.len() != n || d[..n / 2] != keep[..] || d[n / 2..].iter().any(|p| *p != 0) {
                return Some("from_vec with a shorter vector of larger capacity is not extended with transparent pixels".to_string());
            }
            let dt = DrawTarget::from_vec(w, h, pixels[..n / 2].to_vec());
            let d = dt.get_data();
            if d.len() != n || d[..n / 2] != pixels[..n / 2] || d[n / 2..].iter().any(|p| *p != 0) {
                return Some("from_vec with a shorter vector is not extended with transparent pixels".to_string());
            }
        }
        st.add("from_vec_resizes_checked", 1);
    }
    // SolidSource::to_u32
    if n > 0 {
        let c = ch(pixels[0]);
        let s = SolidSource { a: c[0] as u8, r: c[1] as u8, g: c[2] as u8, b: c[3] as u8 };
        if s.to_u32() != pixels[0] {
            return Some(format!("SolidSource {:?}.to_u32() = {} (expected {})", s, hex(s.to_u32()), hex(pixels[0])));
        }
        // a clear() with that colour stores exactly the word
        let mut t = DrawTarget::new(1, 1);
        t.clear(s);
        if t.get_data()[0] != pixels[0] {
            return Some("clear(colour) does not store colour.to_u32()".to_string());
        }
    }
    if with_png {
        // (the file is the one named, whatever its name looks like)
        let ext = ["png", "png", "img", "0001", "PNG", "tmp"][(tag % 6) as usize];
        let path = if tag % 13 == 5 { format!("{}/c19-{}-{}", work_dir(), std::process::id(), tag) } else { format!("{}/c19-{}-{}.{}", work_dir(), std::process::id(), tag, ext) };
        let dt = DrawTarget::from_vec(w, h, pixels.to_vec());
        let res = dt.write_png(&path);
        if w == 0 || h == 0 {
            // a zero-sized surface may be refused, but must not panic
            let _ = std::fs::remove_file(&path);
            st.add("zero_sized_png_attempts", 1);
            return None;
        }
        if let Err(e) = res {
            let _ = std::fs::remove_file(&path);
            return Some(format!("write_png failed: {}", e));
        }
        let dec = decode_png(&path);
        let _ = std::fs::remove_file(&path);
        let (pw, ph, data, ct, bd) = match dec {
            Ok(d) => d,
            Err(e) => return Some(format!("the written PNG cannot be decoded: {}", e)),
        };
        if pw != w as u32 || ph != h as u32 || ct != png::ColorType::Rgba || bd != png::BitDepth::Eight || data.len() != 4 * n {
            return Some(format!("the PNG is {}x{} {:?} {:?} with {} bytes, expected {}x{} 8-bit RGBA", pw, ph, ct, bd, data.len(), w, h));
        }
        for i in 0..n {
            let c = ch(pixels[i]);
            let a = c[0];
            let un = |v: i32| -> u8 {
                if a > 0 {
                    (v * 255 / a) as u8
                } else {
                    v as u8
                }
            };
            let want = [un(c[1]), un(c[2]), un(c[3]), a as u8];
            st.add("png_px_checked", 1);
            if data[4 * i..4 * i + 4] != want {
                return Some(format!("PNG pixel {} (x {}, y {}) = {:?} but the word {} should be written as R,G,B,A = {:?}", i, i as i32 % w, i as i32 / w, &data[4 * i..4 * i + 4], hex(pixels[i]), want));
            }
        }
        st.add("png_files_checked", 1);
    }
    None
}

fn png_bytes_expected(pixels: &[u32]) -> Vec<u8> {
    let mut v = Vec::with_capacity(pixels.len() * 4);
    for p in pixels {
        let c = ch(*p);
        let a = c[0];
        let un = |x: i32| -> u8 { if a > 0 { (x * 255 / a) as u8 } else { x as u8 } };
        v.extend_from_slice(&[un(c[1]), un(c[2]), un(c[3]), a as u8]);
    }
    v
}

/// One surface exported several times, changed in between through every way there is to change it: each
/// export shows the pixels as they are then (whatever an implementation remembers about the buffer between
/// exports). Then: into_vec / into_inner hand back exactly what get_data shows, also while a layer is open.
fn check_export_history(rng: &mut crate::prng::Rng, st: &mut Stats, tag: u64) -> Option<String> {
    let w = rng.int(1, 9) as i32;
    let h = rng.int(1, 6) as i32;
    let n = (w * h) as usize;
    // starts fully opaque, or fully transparent, or mixed
    let start = rng.below(3);
    let init: Vec<u32> = (0..n).map(|_| match start { 0 => premul_pixel(rng) | 0xff000000, 1 => 0, _ => premul_pixel(rng) }).map(|p| if start == 0 { let c = ch(p); pack(255, c[1].min(255) as u32, c[2].min(255) as u32, c[3].min(255) as u32) } else { p }).collect();
    let mut dt = DrawTarget::from_vec(w, h, init);
    let path = format!("{}/c19h-{}-{}.png", work_dir(), std::process::id(), tag);
    let steps = rng.int(2, 5);
    for step in 0..steps {
        let res = dt.write_png(&path);
        let dec = decode_png(&path);
        let _ = std::fs::remove_file(&path);
        match (res, dec) {
            (Ok(()), Ok((pw, ph, data, _, _))) => {
                if pw != w as u32 || ph != h as u32 || data != png_bytes_expected(dt.get_data()) {
                    let want = png_bytes_expected(dt.get_data());
                    let k = data.iter().zip(want.iter()).position(|(a, b)| a != b).unwrap_or(0) / 4;
                    return Some(format!("export #{} of the same surface: PNG pixel {} = {:?} but the word is {} now (R,G,B,A = {:?})", step, k, &data[4 * k..(4 * k + 4).min(data.len())], hex(dt.get_data()[k.min(n - 1)]), &want[4 * k..4 * k + 4]));
                }
            }
            (r, d) => return Some(format!("export #{} failed: {:?} / {:?}", step, r.err().map(|e| e.to_string()), d.err())),
        }
        st.add("png_exports_in_histories", 1);
        // change something, each time through another door
        let k = rng.below(n as u64) as usize;
        let p = if rng.chance(0.7) { premul_pixel(rng) & 0x7fffffff | 0x01000000 } else { premul_pixel(rng) };
        let p = { let c = ch(p); let a = c[0].max(1); pack(a as u32, c[1].min(a) as u32, c[2].min(a) as u32, c[3].min(a) as u32) };
        match rng.below(5) {
            0 => dt.get_data_mut()[k] = p,
            1 => {
                let b = dt.get_data_u8_mut();
                b[4 * k..4 * k + 4].copy_from_slice(&p.to_le_bytes());
            }
            2 => {
                // only the alpha byte (and the colours that must stay below it)
                let b = dt.get_data_u8_mut();
                b[4 * k] = 0;
                b[4 * k + 1] = 0;
                b[4 * k + 2] = 0;
                b[4 * k + 3] = 0x40;
            }
            3 => dt.fill_rect((k as i32 % w) as f32, (k as i32 / w) as f32, 1., 1., &Source::Solid(solid(p)), &opts(BlendMode::Src, 1., true)),
            _ => dt.clear(solid(p)),
        }
    }
    // an unmatched layer: the surface's own buffer is what the views show and what into_vec returns
    if rng.chance(0.5) {
        dt.push_layer_with_blend(*rng.pick(&[1.0f32, 0.5]), *rng.pick(&[BlendMode::SrcOver, BlendMode::Src, BlendMode::Multiply]));
        dt.fill_rect(0., 0., w as f32, h as f32, &Source::Solid(solid(0x80402010)), &opts(BlendMode::SrcOver, 1., true));
        st.add("into_vec_with_an_open_layer", 1);
        // the views are views of the surface, layer or no layer: a write through a mutable view shows in the others
        let k = rng.below(n as u64) as usize;
        let word = 0xc0804020u32;
        if rng.chance(0.5) {
            dt.get_data_mut()[k] = word;
        } else {
            dt.get_data_u8_mut()[4 * k..4 * k + 4].copy_from_slice(&word.to_le_bytes());
        }
        if dt.get_data()[k] != word || dt.get_data_u8()[4 * k..4 * k + 4] != word.to_le_bytes() {
            return Some(format!("with a layer open, a write of {} to pixel {} through a mutable view reads back as {} through get_data", hex(word), k, hex(dt.get_data()[k])));
        }
    }
    let shown = dt.get_data().to_vec();
    let shown_bytes = dt.get_data_u8().to_vec();
    let v = dt.into_vec();
    if v != shown {
        let k = v.iter().zip(shown.iter()).position(|(a, b)| a != b).unwrap_or(0);
        return Some(format!("into_vec returns {} at word {} but get_data showed {} just before", hex(*v.get(k).unwrap_or(&0)), k, hex(shown[k])));
    }
    let bytes: Vec<u8> = v.iter().flat_map(|p| p.to_le_bytes()).collect();
    if bytes != shown_bytes {
        return Some("get_data_u8 and into_vec disagree".to_string());
    }
    None
}

pub fn run(ctx: &Ctx) -> Outcome {
    let mut out = Outcome::new(
        "surfaces of size 0..17 x 0..9 filled with valid premultiplied pixels (every (alpha, colour) pair of one channel appears in the exhaustive part), transparent pixels with arbitrary colour bytes and position-dependent values: word packing (A<<24|R<<16|G<<8|B, SolidSource::to_u32, clear), get_data_u8 = B,G,R,A per word, writes through each view read back through the others, \
         from_vec/from_backing/into_vec/into_inner round trips, write_png decoded with the png crate (8-bit RGBA, width x height, row-major, alpha unchanged, colour = floor(c*255/a), transparent pixels passed through). Non-trivial: a surface with at least two distinct pixels; distinct = hash of (size, pixels).",
    );
    let with_png = !ctx.miri;
    // every valid (alpha, channel) pair, laid out on 16-wide surfaces (exhaustive over one channel pair)
    run_cases(ctx, &mut out, SubSpec { name: "all_alpha_channel_pairs", cases: 256, exhaustive: true, max_secs: 300. }, |i, want, st| {
        let a = i as u32;
        let pixels: Vec<u32> = (0..=a).map(|c| pack(a, c, a - c, c / 2)).collect();
        // non-square layout to expose stride/order mistakes
        let w = 16.min(pixels.len() as i32).max(1);
        let h = (pixels.len() as i32 + w - 1) / w;
        let mut px = pixels.clone();
        px.resize((w * h) as usize, 0x00123456 & 0x00ffffff);
        let mut co = CaseOut::default();
        co.hash = i;
        co.nontrivial = true;
        if let Some(v) = check_surface(w, h, &px, st, with_png, i) {
            co.viol("C19", v);
        }
        if want || !co.violations.is_empty() {
            co.desc = Some(J::s(&format!("{}x{} surface holding every colour 0..={} at alpha {}", w, h, a, a)));
        }
        co
    });
    // words built from extreme bytes (0, 1, 127, 128, 254, 255 in every colour position of a transparent pixel,
    // and every valid extreme combination otherwise), each in turn as the first pixel, the last pixel and a whole row
    if !ctx.miri {
        let ext = [0u32, 1, 127, 128, 254, 255];
        let mut words: Vec<u32> = Vec::new();
        for a in ext {
            for r in ext {
                for g in ext {
                    for b in ext {
                        if a == 0 || (r <= a && g <= a && b <= a) {
                            words.push(pack(a, r, g, b));
                        }
                    }
                }
            }
        }
        let nw = words.len() as u64;
        run_cases(ctx, &mut out, SubSpec { name: "extreme_byte_words", cases: nw, exhaustive: true, max_secs: 300. }, |i, want, st| {
            let word = words[i as usize];
            let other = words[((i * 7 + 3) % nw) as usize];
            let (w, h) = (5, 3);
            let mut px = vec![other; 15];
            px[0] = word;
            px[14] = word;
            for k in 5..10 {
                px[k] = word;
            }
            let mut co = CaseOut::default();
            co.hash = word as u64;
            co.nontrivial = true;
            if let Some(v) = check_surface(w, h, &px, st, with_png, 20_000 + i) {
                co.viol("C19", v);
            }
            if want || !co.violations.is_empty() {
                co.desc = Some(J::s(&format!("5x3 surface of {} with {} as first pixel, last pixel and middle row", hex(other), hex(word))));
            }
            co
        });
    }
    run_cases(ctx, &mut out, SubSpec { name: "random_surfaces", cases: if ctx.miri { 240 } else { ctx.n(3_000, 60_000) }, exhaustive: false, max_secs: if ctx.quick() { 30. } else { 600. } }, |i, want, st| {
        let mut rng = ctx.rng("random_surfaces", i);
        let w = rng.int(0, 17) as i32;
        let h = rng.int(0, 9) as i32;
        let n = (w * h) as usize;
        let pixels: Vec<u32> = (0..n)
            .map(|k| match rng.below(6) {
                0 => rng.u32() & 0x00ffffff,         // transparent with arbitrary colour bytes
                1 => 0xff000000 | (k as u32 * 0x010305),
                _ => premul_pixel(&mut rng),
            })
            .collect();
        let mut co = CaseOut::default();
        co.hash = crate::prng::hash_str(&format!("{:?}{:?}", (w, h), pixels));
        let distinct: std::collections::HashSet<u32> = pixels.iter().cloned().collect();
        co.nontrivial = distinct.len() >= 2;
        if let Some(v) = check_surface(w, h, &pixels, st, with_png, 1000 + i) {
            co.viol("C19", v);
        }
        if want || !co.violations.is_empty() {
            let mut d = J::obj();
            d.set("surface", J::s(&format!("{}x{}", w, h)));
            d.set("pixels", pixels_json(&pixels));
            co.desc = Some(d);
        }
        co
    });
    if !ctx.miri {
        run_cases(ctx, &mut out, SubSpec { name: "large_surfaces", cases: ctx.n(8, 200), exhaustive: false, max_secs: 120. }, |i, want, st| {
            let mut rng = ctx.rng("large_surfaces", i);
            // (two of every eight hold more than 2^20 pixels, with a height that no round number of rows divides)
            let (w, h) = match i % 8 { 0 => (1100, 1000), 1 => (1031, 1019), _ => *rng.pick(&[(200, 100), (130, 130), (257, 70), (64, 300), (1, 20000), (20000, 1)]) };
            let n = (w * h) as usize;
            // painted and empty regions alternate at different scales (rows, blocks, single pixels)
            let style = rng.below(3);
            let pixels: Vec<u32> = (0..n)
                .map(|k| {
                    let on = match style {
                        0 => (k / w as usize) % 7 < 3,
                        1 => (k / 4099) % 2 == 0,
                        _ => rng.chance(0.5),
                    };
                    if on { premul_pixel(&mut rng) | 0x01000000 } else { 0 }
                })
                .collect();
            let mut co = CaseOut::default();
            co.hash = crate::prng::hash_str(&format!("{:?}{}", (w, h, style), pixels.len()));
            co.nontrivial = true;
            if let Some(v) = check_surface(w, h, &pixels, st, true, 5000 + i) {
                co.viol("C19", v);
            }
            if want || !co.violations.is_empty() {
                co.desc = Some(J::s(&format!("{}x{} surface, fill style {}", w, h, style)));
            }
            co
        });
    }
    if !ctx.miri {
        // a surface of 2^29 pixels (2 GiB of zero pages that are never touched): its byte view is 2^31 bytes long, one
        // more than an i32 holds
        run_cases(ctx, &mut out, SubSpec { name: "byte_view_of_a_surface_of_2_to_the_29_pixels", cases: 1, exhaustive: true, max_secs: 120. }, |_i, want, st| {
            let mut co = CaseOut::default();
            co.hash = 1;
            co.nontrivial = true;
            // (an allocation that is refused aborts the process instead of unwinding: ask first, in a way that can say no)
            {
                let mut probe: Vec<u32> = Vec::new();
                if probe.try_reserve_exact(1 << 29).is_err() {
                    st.add("surfaces_of_2_to_the_29_pixels_skipped_allocation_refused", 1);
                    co.nontrivial = false;
                    return co;
                }
            }
            let res = guarded(|| {
                let mut dt = DrawTarget::new(32768, 16384);
                let words = dt.get_data().len();
                let bytes = dt.get_data_u8().len();
                let bytes_mut = dt.get_data_u8_mut().len();
                (words, bytes, bytes_mut)
            });
            st.add("surfaces_of_2_to_the_29_pixels", 1);
            match res {
                Ok((words, bytes, bytes_mut)) => {
                    if words != 1 << 29 || bytes != 1usize << 31 || bytes_mut != 1usize << 31 {
                        co.viol("C19", format!("a 32768x16384 surface has {} words but its byte views have {} and {} bytes", words, bytes, bytes_mut));
                    }
                }
                Err(p) => co.viol("C19", format!("taking the byte view of a 32768x16384 surface panicked: {}", p)),
            }
            if want || !co.violations.is_empty() {
                co.desc = Some(J::s("DrawTarget::new(32768, 16384); get_data_u8().len(); get_data_u8_mut().len()"));
            }
            co
        });
    }
    if !ctx.miri {
        run_cases(ctx, &mut out, SubSpec { name: "export_histories", cases: ctx.n(600, 20_000), exhaustive: false, max_secs: 120. }, |i, want, st| {
            let mut rng = ctx.rng("export_histories", i);
            let mut co = CaseOut::default();
            co.hash = crate::prng::hash_u64s(&[i, ctx.seed]);
            co.nontrivial = true;
            if let Some(v) = check_export_history(&mut rng, st, 9000 + i) {
                co.viol("C19", v);
            }
            if want || !co.violations.is_empty() {
                co.desc = Some(J::s("a surface exported with write_png several times, changed between exports through get_data_mut / get_data_u8_mut / fill_rect / clear; then into_vec (regenerated from the seed)"));
            }
            co
        });
    }
    out.assume("little-endian machine (the statement's byte order); PNG files are written under /verif/.work and removed again");
    let _ = Rng::new(0, "", 0);
    out
}
