//! C12 - gradient sources are positioned and coloured as constructed.
//!
//! Oracle: analytic gradient parameter t at T^-1(pixel centre) in f64, piecewise-linear
//! interpolation of the unpremultiplied stops, premultiplied and scaled by the alpha byte; the
//! observed channels must lie within 4/255 of the values the colour takes for t within 3/255
//! (widened by |t|/255 for two-circle and sweep) of the pixel's t, folded through the spread.

use crate::gen::*;
use crate::json::J;
use crate::prng::Rng;
use crate::runner::*;
use crate::scene::{opacity_byte, probe_source, probe_source_checked, ProbeFail};
use crate::util::*;
use raqote::*;

/// reference colour (a, r, g, b as reals 0..255, premultiplied, scaled by alpha) at parameter t in [0,1]
fn color_at(stops: &[Stop], t: f64, alpha_byte: f64) -> [f64; 4] {
    let n = stops.len();
    let mut c = [0f64; 4];
    let get = |s: &Stop| [s.argb[0] as f64, s.argb[1] as f64, s.argb[2] as f64, s.argb[3] as f64];
    if t <= stops[0].pos as f64 {
        c = get(&stops[0]);
    } else if t >= stops[n - 1].pos as f64 {
        c = get(&stops[n - 1]);
    } else {
        for i in 0..n - 1 {
            let (p0, p1) = (stops[i].pos as f64, stops[i + 1].pos as f64);
            if t >= p0 && t <= p1 {
                let f = if p1 > p0 { (t - p0) / (p1 - p0) } else { 0. };
                let (a, b) = (get(&stops[i]), get(&stops[i + 1]));
                for k in 0..4 {
                    c[k] = a[k] + (b[k] - a[k]) * f;
                }
                break;
            }
        }
    }
    let a = c[0] / 255.;
    let s = alpha_byte / 255.;
    [c[0] * s, c[1] * a * s, c[2] * a * s, c[3] * a * s]
}

/// folds the interval [lo, hi] of raw t through the spread into sub-intervals of [0,1]
fn fold(lo: f64, hi: f64, spread: u8) -> Vec<(f64, f64)> {
    match spread {
        0 => vec![(lo.clamp(0., 1.), hi.clamp(0., 1.))],
        2 => {
            // repeat
            if hi - lo >= 1. {
                return vec![(0., 1.)];
            }
            let (a, b) = (lo - lo.floor(), hi - lo.floor());
            if b <= 1. {
                vec![(a, b)]
            } else {
                vec![(a, 1.), (0., b - 1.)]
            }
        }
        _ => {
            // reflect: period 2
            if hi - lo >= 2. {
                return vec![(0., 1.)];
            }
            let base = (lo / 2.).floor() * 2.;
            let (a, b) = (lo - base, hi - base); // a in [0,2), b < a + 2 <= 4
            let mut out = Vec::new();
            // split [a,b] at 1, 2, 3
            let cuts = [0., 1., 2., 3., 4.];
            for k in 0..4 {
                let (s, e) = (a.max(cuts[k]), b.min(cuts[k + 1]));
                if e >= s {
                    if k % 2 == 0 {
                        out.push((s - cuts[k], e - cuts[k]));
                    } else {
                        out.push((cuts[k + 1] - e, cuts[k + 1] - s));
                    }
                }
            }
            out
        }
    }
}

/// per-channel [min, max] of the reference colour over the folded intervals
fn color_range(stops: &[Stop], ivs: &[(f64, f64)], alpha_byte: f64) -> ([f64; 4], [f64; 4]) {
    let mut mn = [f64::INFINITY; 4];
    let mut mx = [f64::NEG_INFINITY; 4];
    let mut add = |t: f64| {
        let c = color_at(stops, t, alpha_byte);
        for k in 0..4 {
            mn[k] = mn[k].min(c[k]);
            mx[k] = mx[k].max(c[k]);
        }
    };
    for (a, b) in ivs {
        for i in 0..=32 {
            add(a + (b - a) * i as f64 / 32.);
        }
        for s in stops {
            let p = s.pos as f64;
            if p >= *a && p <= *b {
                add(p);
            }
        }
    }
    (mn, mx)
}

pub struct GradCase {
    pub w: i32,
    pub h: i32,
    pub src: SrcSpec,
    pub alpha: f32,
    pub t: Transform,
}

enum TVal {
    /// t and the extra band
    T(f64, f64),
    /// not assertable at this pixel
    Skip,
    /// the statement gives transparent black (no circle passes through the point)
    Nothing,
}

fn t_of(src: &SrcSpec, u: (f64, f64), wrong_sweep: bool) -> TVal {
    match src {
        SrcSpec::Linear { start, end, .. } => {
            let (sx, sy, ex, ey) = (start.0 as f64, start.1 as f64, end.0 as f64, end.1 as f64);
            let (dx, dy) = (ex - sx, ey - sy);
            let l2 = dx * dx + dy * dy;
            TVal::T(((u.0 - sx) * dx + (u.1 - sy) * dy) / l2, 0.)
        }
        SrcSpec::Radial { center, radius, .. } => {
            let d = ((u.0 - center.0 as f64).powi(2) + (u.1 - center.1 as f64).powi(2)).sqrt();
            TVal::T(d / *radius as f64, 0.)
        }
        SrcSpec::TwoCircle { c1, r1, c2, r2, .. } => {
            let (c1x, c1y, c2x, c2y, r1, r2) = (c1.0 as f64, c1.1 as f64, c2.0 as f64, c2.1 as f64, *r1 as f64, *r2 as f64);
            let (cdx, cdy, dr) = (c2x - c1x, c2y - c1y, r2 - r1);
            let (pdx, pdy) = (u.0 - c1x, u.1 - c1y);
            let a = cdx * cdx + cdy * cdy - dr * dr;
            let b = pdx * cdx + pdy * cdy + r1 * dr;
            let c = pdx * pdx + pdy * pdy - r1 * r1;
            if a.abs() < 1e-9 {
                return TVal::Skip;
            }
            let disc = b * b - a * c;
            if disc < 0. {
                return TVal::Nothing;
            }
            // ill-conditioned near a double root
            if disc.sqrt() < 1e-3 * (b.abs() + 1.) {
                return TVal::Skip;
            }
            let t1 = (b + disc.sqrt()) / a;
            let t2 = (b - disc.sqrt()) / a;
            let mut best: Option<f64> = None;
            for t in [t1, t2] {
                if r1 + t * dr >= 0. {
                    best = Some(best.map(|b: f64| b.max(t)).unwrap_or(t));
                }
            }
            match best {
                Some(t) => TVal::T(t, t.abs() / 255.),
                None => TVal::Nothing,
            }
        }
        SrcSpec::Sweep { center, start_angle, end_angle, .. } => {
            let (dx, dy) = (u.0 - center.0 as f64, u.1 - center.1 as f64);
            if dx.hypot(dy) < 1.5 {
                return TVal::Skip;
            }
            // clockwise on screen (y down) from the positive x axis, in [0, 360)
            let mut a = dy.atan2(dx).to_degrees();
            if a < 0. {
                a += 360.;
            }
            // within the angular uncertainty of the seam the two sides are a whole gradient apart
            let seam = (1.0 / dx.hypot(dy)).to_degrees().max(0.5);
            if a < seam || a > 360. - seam {
                return TVal::Skip;
            }
            let (a0, a1) = (*start_angle as f64, *end_angle as f64);
            let t = if wrong_sweep { a / (a1 - a0) + a0 / 360. } else { (a - a0) / (a1 - a0) };
            TVal::T(t, t.abs() / 255.)
        }
        _ => TVal::Skip,
    }
}

/// the statement's tolerance (RV_C12_TAU lowers it for calibration experiments only)
fn tau() -> f64 {
    std::env::var("RV_C12_TAU").ok().and_then(|v| v.parse().ok()).unwrap_or(4.0)
}

pub struct GradResult {
    pub asserted: u64,
    pub skipped: u64,
    pub max_excess: f64,
    pub violation: Option<String>,
    /// every failing pixel is explained by the characterised sweep defect
    pub matches_known_sweep: bool,
}

fn stops_of(src: &SrcSpec) -> (&Vec<Stop>, u8) {
    match src {
        SrcSpec::Linear { stops, spread, .. } | SrcSpec::Radial { stops, spread, .. } | SrcSpec::TwoCircle { stops, spread, .. } | SrcSpec::Sweep { stops, spread, .. } => (stops, *spread),
        _ => unreachable!(),
    }
}

pub fn check_gradient(c: &GradCase, pixels: &[u32]) -> GradResult {
    let inv = T64::from(&c.t).inverse().expect("invertible");
    let (stops, spread) = stops_of(&c.src);
    let ab = opacity_byte(c.alpha) as f64;
    let mut res = GradResult { asserted: 0, skipped: 0, max_excess: 0., violation: None, matches_known_sweep: true };
    let is_sweep_nonzero_start = matches!(&c.src, SrcSpec::Sweep { start_angle, .. } if *start_angle != 0.);
    let excess_of = |px: u32, tv: &TVal| -> Option<f64> {
        match tv {
            TVal::Skip => None,
            TVal::Nothing => Some(if px == 0 { 0. } else { 255. }),
            // (the shaders carry the gradient parameter in 16.16 fixed point: beyond +-32768 it wraps, and a repeating
            // or reflecting ramp shows an unrelated phase - outside the working range, not asserted)
            TVal::T(t, _) if t.abs() > 30000. => None,
            TVal::T(t, band) => {
                let d = 3. / 255. + band;
                let ivs = fold(t - d, t + d, spread);
                let (mn, mx) = color_range(stops, &ivs, ab);
                let o = ch(px);
                let mut ex = 0f64;
                for k in 0..4 {
                    let v = o[k] as f64;
                    ex = ex.max(mn[k] - v).max(v - mx[k]);
                }
                Some(ex)
            }
        }
    };
    for y in 0..c.h {
        for x in 0..c.w {
            let u = inv.apply(x as f64 + 0.5, y as f64 + 0.5);
            let px = pixels[(y * c.w + x) as usize];
            let tv = t_of(&c.src, u, false);
            match excess_of(px, &tv) {
                None => res.skipped += 1,
                Some(ex) => {
                    res.asserted += 1;
                    res.max_excess = res.max_excess.max(ex.min(255.));
                    if ex > tau() {
                        // does the characterised sweep defect explain this pixel?
                        let explained = is_sweep_nonzero_start && excess_of(px, &t_of(&c.src, u, true)).map(|e| e <= 4.0).unwrap_or(true);
                        if !explained {
                            res.matches_known_sweep = false;
                        }
                        if res.violation.is_none() {
                            let tdesc = match tv {
                                TVal::T(t, _) => format!("t = {:.4}", t),
                                TVal::Nothing => "no circle through the point (transparent expected)".to_string(),
                                TVal::Skip => String::new(),
                            };
                            res.violation = Some(format!("pixel ({},{}) = {} is {:.1} LSB outside the colours the gradient takes around {} (user-space point ({:.3},{:.3}))", x, y, hex(px), ex, tdesc, u.0, u.1));
                        }
                    }
                }
            }
        }
    }
    res
}

pub fn gen_case(rng: &mut Rng) -> GradCase {
    let w = rng.int(4, 32) as i32;
    let h = rng.int(4, 32) as i32;
    let (wf, hf) = (w as f64, h as f64);
    let stops = random_stops(rng);
    let spread = rng.below(3) as u8;
    let far = rng.chance(0.15);
    // 'nice' values now and then: the origin, whole numbers, powers of two
    let nice = rng.chance(0.12);
    let pos = |rng: &mut Rng, s: f64| -> f32 {
        if nice && rng.chance(0.7) {
            return *rng.pick(&[0.0f32, 0., 1., 0.5, 2., 4., 8., 16., -1.]);
        }
        (if far { rng.range(-3. * s - 40., 4. * s + 40.) } else { rng.range(-2., s + 2.) }) as f32
    };
    let nice_radius = |rng: &mut Rng, r: f32| -> f32 { if nice && rng.chance(0.7) { *rng.pick(&[1.0f32, 2., 4., 8., 16., 32., 64., 128., 256., 100., 10.]) } else { r } };
    let src = match rng.below(4) {
        0 if rng.chance(0.08) => {
            // a short gradient thousands of lengths away from the surface: t runs into the thousands
            let len = rng.range(1.0, 3.0);
            let ang = rng.range(0., 6.28);
            let dist = rng.range(2500., 20000.) * if rng.chance(0.5) { -1. } else { 1. };
            let start = ((wf / 2. + dist * ang.cos()) as f32, (hf / 2. + dist * ang.sin()) as f32);
            let end = ((start.0 as f64 + len * ang.cos()) as f32, (start.1 as f64 + len * ang.sin()) as f32);
            SrcSpec::Linear { stops, start, end, spread }
        }
        0 => {
            let start = (pos(rng, wf), pos(rng, hf));
            let mut end = (pos(rng, wf), pos(rng, hf));
            if ((end.0 - start.0) as f64).hypot((end.1 - start.1) as f64) < 1.5 {
                end.0 += 3.;
            }
            SrcSpec::Linear { stops, start, end, spread }
        }
        1 => {
            let r = rng.range(1.5, 2. * (wf + hf)) as f32;
            SrcSpec::Radial { stops, center: (pos(rng, wf), pos(rng, hf)), radius: nice_radius(rng, r), spread }
        }
        2 => {
            let c2 = (pos(rng, wf), pos(rng, hf));
            let r2 = rng.range(3., 2. * (wf + hf)) as f32;
            // (a first circle that is a single point now and then)
            let r1 = if rng.chance(0.12) { 0. } else { (r2 as f64 * rng.range(0.02, 0.6)) as f32 };
            let room = (r2 - r1) as f64 * 0.85;
            let ang = rng.range(0., 6.28);
            let dist = rng.range(0., room);
            // exactly concentric circles now and then
            let c1 = if rng.chance(0.2) { c2 } else { ((c2.0 as f64 + dist * ang.cos()) as f32, (c2.1 as f64 + dist * ang.sin()) as f32) };
            SrcSpec::TwoCircle { stops, c1, r1, c2, r2, spread }
        }
        _ => {
            let start_angle = if rng.chance(0.6) { 0. } else { *rng.pick(&[30.0f32, 90., 180., 45.5, 270.]) };
            let end_angle = start_angle + *rng.pick(&[360.0f32, 180., 90., 45., 270., 120., 540., 720.]);
            SrcSpec::Sweep { stops, center: (pos(rng, wf), pos(rng, hf)), start_angle, end_angle, spread }
        }
    };
    let alpha = match rng.below(5) {
        0 => 0.5,
        1 => rng.f64() as f32,
        2 => 0.0,
        _ => 1.0,
    };
    // a flat section: a stop that repeats the colour of the stop before it
    let mut src = src;
    if rng.chance(0.15) {
        if let SrcSpec::Linear { stops, .. } | SrcSpec::Radial { stops, .. } | SrcSpec::TwoCircle { stops, .. } | SrcSpec::Sweep { stops, .. } = &mut src {
            if stops.len() >= 3 {
                let k = 1 + rng.below(stops.len() as u64 - 2) as usize;
                stops[k].argb = stops[k - 1].argb;
            }
        }
    }
    let (cx, cy) = (w as f32 / 2., h as f32 / 2.);
    // the transform that puts the gradient's own frame onto the device: the inverse of the current transform
    // is then bit for bit the matrix the gradient carries (or its translation part)
    let own_frame: Option<Transform> = if rng.chance(0.04) {
        match &src {
            SrcSpec::Radial { center, radius, .. } => Some(Transform::scale(*radius, *radius).then_translate(euclid::vec2(center.0, center.1))),
            SrcSpec::Sweep { center, .. } | SrcSpec::TwoCircle { c1: center, .. } => Some(Transform::translation(center.0, center.1)),
            SrcSpec::Linear { start, end, .. } => {
                let (dx, dy) = (end.0 - start.0, end.1 - start.1);
                Some(Transform::new(dx, dy, -dy, dx, start.0, start.1))
            }
            _ => None,
        }
    } else {
        None
    };
    let t = match rng.below(9) {
        _ if own_frame.is_some() => own_frame.unwrap(),
        8 => special_transform(rng, w as f64, h as f64),
        0 | 1 | 2 => Transform::identity(),
        3 => Transform::translation(rng.range(-5., 5.) as f32, rng.range(-5., 5.) as f32),
        4 => Transform::translation(-cx, -cy).then_rotate(euclid::Angle::radians(rng.range(0., 6.28) as f32)).then_translate(euclid::vec2(cx, cy)),
        5 => Transform::translation(-cx, -cy).then_scale(rng.range(0.5, 3.) as f32, rng.range(0.5, 3.) as f32).then_translate(euclid::vec2(cx, cy)),
        6 => Transform::translation(-cx, -cy).then(&Transform::new(1., rng.range(-0.7, 0.7) as f32, rng.range(-0.7, 0.7) as f32, 1., 0., 0.)).then_translate(euclid::vec2(cx, cy)),
        _ => Transform::translation(-cx, -cy).then_scale(-1., rng.range(0.7, 1.5) as f32).then_translate(euclid::vec2(cx, cy)),
    };
    // a ramp that returns to its first colour (A-B-A) lying wholly inside a surface 40..64 px wide: a row starts and
    // ends on the same colour with the whole ramp between
    if let SrcSpec::Linear { stops, spread, .. } = &src {
        if rng.chance(0.08) && stops.len() >= 2 {
            let w2 = rng.int(40, 64) as i32;
            let mut st2 = stops.clone();
            let n = st2.len();
            st2[n - 1].argb = st2[0].argb;
            let x0 = rng.range(6., 16.);
            let x1 = w2 as f64 - rng.range(6., 16.);
            let (y0, y1) = (rng.range(0., hf), rng.range(0., hf));
            let (a, b) = if rng.chance(0.5) { ((x0 as f32, y0 as f32), (x1 as f32, y1 as f32)) } else { ((x1 as f32, y0 as f32), (x0 as f32, y1 as f32)) };
            let src = SrcSpec::Linear { stops: st2, start: a, end: b, spread: if rng.chance(0.7) { 0 } else { *spread } };
            return GradCase { w: w2, h, src, alpha, t: if rng.chance(0.7) { Transform::identity() } else { Transform::translation(rng.int(-3, 3) as f32, rng.int(-3, 3) as f32) } };
        }
    }
    GradCase { w, h, src, alpha, t }
}

fn case_desc(c: &GradCase) -> J {
    let mut d = J::obj();
    d.set("surface", J::s(&format!("{}x{}", c.w, c.h)));
    d.set("source", c.src.desc());
    d.set("alpha", J::s(&fmt_f(c.alpha)));
    d.set("transform", J::s(&transform_str(&c.t)));
    d
}

pub fn run_case(ctx: &Ctx, c: &GradCase, st: &mut Stats, want: bool) -> CaseOut {
    let mut co = CaseOut::default();
    co.hash = crate::prng::hash_str(&format!("{:?}{}{:?}", c.src, c.alpha, c.t));
    // whatever an implementation remembers about a gradient must not depend on the transform it was first
    // drawn under: draw the same source under a different transform (and alpha) first, in this thread
    if co.hash % 3 == 0 {
        // (another transform altogether, or one that differs from the case's own by a vertical or a horizontal shift
        // only - then at the same alpha)
        let (other, a) = match (co.hash / 3) % 3 {
            0 => (c.t.then_scale(1.5, 0.75).then_translate(euclid::vec2(2.5, -1.0)), 1.0 - c.alpha * 0.5),
            1 => (c.t.then_translate(euclid::vec2(0., 3.0)), c.alpha),
            _ => (c.t.then_translate(euclid::vec2(-2.0, 0.)), c.alpha),
        };
        let _ = probe_source(c.w, c.h, &other, &c.src, a);
        st.add("cases_preceded_by_the_same_gradient_under_another_transform", 1);
    }
    // every fourth case is also observed through mask(): a mask of full coverage over the whole surface, SrcOver on
    // transparent pixels, stores the source colour too (mask() takes no global alpha: compared at alpha 1)
    if co.hash % 4 == 1 && c.w > 0 && c.h > 0 {
        if let Ok(reference) = probe_source_checked(c.w, c.h, &c.t, &c.src, 1.0) {
            let mut dt = DrawTarget::new(c.w, c.h);
            dt.set_transform(&c.t);
            let m = Mask { width: c.w, height: c.h, data: vec![255; (c.w * c.h) as usize] };
            c.src.with(|s| dt.mask(s, 0, 0, &m));
            st.add("cases_also_observed_through_mask", 1);
            if let Some(k) = dt.get_data().iter().zip(reference.iter()).position(|(a, b)| a != b) {
                co.viol("C12", format!("through mask() under the transform {} pixel ({},{}) = {} but a fill shows the gradient as {}", transform_str(&c.t), k as i32 % c.w, k as i32 / c.w, hex(dt.get_data()[k]), hex(reference[k])));
            }
        }
    }
    // one linear or radial gradient in ten is drawn with user space magnified by 2^20 .. 2^34 and its own geometry
    // shrunk by the same factor (exact in f32, the same picture bit for bit - C11 checks that); the reference keeps
    // working with the case as written
    let (real_t, real_src) = if co.hash % 10 == 7 && matches!(&c.src, SrcSpec::Linear { .. } | SrcSpec::Radial { .. }) {
        let k = (2.0f32).powi([20, 24, 27, 30, 34][(co.hash / 10 % 5) as usize]);
        st.add("gradients_drawn_under_a_power_of_two_user_scale", 1);
        (Transform::scale(k, k).then(&c.t), crate::ops::scale_source(&c.src, 1. / k))
    } else {
        (c.t, c.src.clone())
    };
    let pixels = match probe_source_checked(c.w, c.h, &real_t, &real_src, c.alpha) {
        Ok(p) => p,
        Err(ProbeFail::OutOfRange) => {
            st.add("cases_source_not_observable", 1);
            return co;
        }
        Err(ProbeFail::NotCovered(x, y, cov)) => {
            co.viol("C12", format!("filling a rectangle that contains the whole surface with 3 px to spare leaves pixel ({},{}) with coverage {} under the current transform {}", x, y, cov, transform_str(&c.t)));
            co.desc = Some(case_desc(c));
            return co;
        }
    };
    let res = check_gradient(c, &pixels);
    st.add("px_asserted", res.asserted);
    st.add("px_ill_conditioned_not_asserted", res.skipped);
    st.add(&format!("kind:{}", c.src.kind()), 1);
    let distinct: std::collections::HashSet<u32> = pixels.iter().cloned().collect();
    co.nontrivial = res.asserted > 0 && distinct.len() >= 2;
    if let Some(v) = res.violation {
        let sweep_sig = matches!(&c.src, SrcSpec::Sweep { start_angle, .. } if *start_angle != 0.) && res.matches_known_sweep;
        if sweep_sig && ctx.known.active("C12", "sweep-start-angle-bias") {
            co.known.push(("C12:sweep-start-angle-bias".to_string(), v));
        } else {
            co.viol("C12", v);
        }
    } else if !matches!(&c.src, SrcSpec::Sweep { start_angle, .. } if *start_angle != 0.) {
        // (sweeps with a start angle carry the known bias even when a case stays inside the tolerance)
        st.max("max_excess_over_reference_interval_lsb", res.max_excess);
        st.max(&format!("max_excess_lsb:{}:{}", c.src.kind(), if opacity_byte(c.alpha) == 255 { "opaque" } else { "alpha" }), res.max_excess);
    }
    if want || !co.violations.is_empty() {
        co.desc = Some(case_desc(c));
    }
    co
}

fn directed() -> Vec<GradCase> {
    let white2 = vec![Stop { pos: 0., argb: [255, 255, 255, 255] }, Stop { pos: 1., argb: [255, 255, 255, 255] }];
    let ramp = vec![Stop { pos: 0., argb: [255, 255, 0, 0] }, Stop { pos: 0.5, argb: [255, 0, 255, 0] }, Stop { pos: 1., argb: [128, 0, 0, 255] }];
    vec![
        // finding 16: global alpha applied once
        GradCase { w: 8, h: 4, src: SrcSpec::Linear { stops: white2.clone(), start: (0., 0.), end: (8., 0.), spread: 0 }, alpha: 0.5, t: Transform::identity() },
        GradCase { w: 8, h: 8, src: SrcSpec::Radial { stops: ramp.clone(), center: (4., 4.), radius: 5., spread: 1 }, alpha: 0.25, t: Transform::identity() },
        // finding 17 (known): sweep that does not start at angle 0
        GradCase { w: 16, h: 16, src: SrcSpec::Sweep { stops: ramp.clone(), center: (8., 8.), start_angle: 90., end_angle: 180., spread: 0 }, alpha: 1., t: Transform::identity() },
        GradCase { w: 16, h: 16, src: SrcSpec::Sweep { stops: ramp.clone(), center: (8., 8.), start_angle: 0., end_angle: 360., spread: 0 }, alpha: 1., t: Transform::identity() },
        GradCase { w: 16, h: 16, src: SrcSpec::Sweep { stops: ramp.clone(), center: (8., 8.), start_angle: 0., end_angle: 90., spread: 2 }, alpha: 1., t: Transform::identity() },
        GradCase { w: 12, h: 12, src: SrcSpec::TwoCircle { stops: ramp, c1: (6., 6.), r1: 1., c2: (7., 6.), r2: 8., spread: 0 }, alpha: 1., t: Transform::identity() },
    ]
}

pub fn run(ctx: &Ctx) -> Outcome {
    let mut out = Outcome::new(
        "random linear / radial / two-circle (first inside second) / sweep gradients with 1..5 stops at increasing positions, three spreads, alpha in [0,1], geometry inside, across and far outside the surface, random invertible transforms; the per-pixel source colour is observed with a full-surface Src fill and compared with the analytic reference at T^-1(pixel centre): \
         every channel within 4/255 of the range the reference colour takes for t within 3/255 (+|t|/255 for two-circle and sweep) of the pixel's t, the interval folded through the spread. Pixels within 1.5 px of a sweep centre, on the sweep seam, or at a two-circle double root are not asserted. Non-trivial: pixels asserted and at least two distinct colours; distinct = hash of the case.",
    );
    let d = directed();
    run_cases(ctx, &mut out, SubSpec { name: "directed", cases: d.len() as u64, exhaustive: false, max_secs: 60. }, |i, want, st| run_case(ctx, &d[i as usize], st, want));
    run_cases(ctx, &mut out, SubSpec { name: "gradients", cases: ctx.n(40_000, 800_000), exhaustive: false, max_secs: if ctx.quick() { 40. } else { 900. } }, |i, want, st| {
        let mut rng = ctx.rng("gradients", i);
        let c = gen_case(&mut rng);
        run_case(ctx, &c, st, want)
    });
    // every combination of a 'round' origin and a 'round' size, for the three kinds that have a size: the values a
    // special case in a constructor or a shader would be written for (the origin, radius 1, powers of two, 100)
    let origins: [(f32, f32); 5] = [(0., 0.), (1., 0.), (0., 1.), (0.5, 0.5), (8., 8.)];
    let sizes: [f32; 11] = [1., 2., 4., 8., 16., 32., 64., 100., 128., 256., 10.];
    let combos = (origins.len() * sizes.len() * 3) as u64;
    run_cases(ctx, &mut out, SubSpec { name: "round_origins_and_sizes", cases: combos * if ctx.quick() { 2 } else { 40 }, exhaustive: false, max_secs: 60. }, |i, want, st| {
        let mut rng = ctx.rng("round_origins_and_sizes", i);
        let k = (i % combos) as usize;
        let o = origins[k % origins.len()];
        let size = sizes[(k / origins.len()) % sizes.len()];
        let kind = k / (origins.len() * sizes.len());
        let stops = random_stops(&mut rng);
        let spread = rng.below(3) as u8;
        let src = match kind {
            0 => SrcSpec::Linear { stops, start: o, end: if rng.chance(0.5) { (o.0 + size, o.1) } else { (o.0, o.1 + size) }, spread },
            1 => SrcSpec::Radial { stops, center: o, radius: size, spread },
            _ => SrcSpec::TwoCircle { stops, c1: o, r1: if rng.chance(0.5) { 0. } else { size / 4. }, c2: o, r2: size, spread },
        };
        let w = rng.int(12, 40) as i32;
        let h = rng.int(12, 40) as i32;
        let t = match rng.below(4) {
            0 | 1 => Transform::identity(),
            2 => Transform::translation(rng.int(0, 8) as f32, rng.int(0, 8) as f32),
            _ => Transform::scale(0.25, 0.25),
        };
        let c = GradCase { w, h, src, alpha: if rng.chance(0.7) { 1. } else { 0.5 }, t };
        run_case(ctx, &c, st, want)
    });
    out.assume("the source colour is observed through a full-surface Src fill (coverage 255 everywhere is verified first)");
    out
}
