pub mod c01;

use crate::runner::{Ctx, Outcome};

pub fn dispatch(ctx: &Ctx) -> Option<Outcome> {
    match ctx.prop.as_str() {
        "C01" => Some(c01::run(ctx)),
        _ => None,
    }
}
