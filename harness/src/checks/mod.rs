pub mod c01;
pub mod c16;
pub mod c17;
pub mod c19;
pub mod c20;
pub mod scenes;
pub mod c04;
pub mod c07;
pub mod c08;
pub mod c09;
pub mod c10;
pub mod c11;
pub mod c12;
pub mod c13;
pub mod c14;
pub mod c15;

use crate::runner::{Ctx, Outcome};

pub fn dispatch(ctx: &Ctx) -> Option<Outcome> {
    match ctx.prop.as_str() {
        "C01" => Some(c01::run(ctx)),
        "C02" | "C03" | "C05" | "C06" | "C18" => Some(scenes::run(ctx)),
        "C04" => Some(c04::run(ctx)),
        "C07" => Some(c07::run(ctx)),
        "C08" => Some(c08::run(ctx)),
        "C09" => Some(c09::run(ctx)),
        "C10" => Some(c10::run(ctx)),
        "C11" => Some(c11::run(ctx)),
        "C12" => Some(c12::run(ctx)),
        "C13" => Some(c13::run(ctx)),
        "C14" => Some(c14::run(ctx)),
        "C15" => Some(c15::run(ctx)),
        "C16" => Some(c16::run(ctx)),
        "C17" => Some(c17::run(ctx)),
        "C19" => Some(c19::run(ctx)),
        "C20" => Some(c20::run(ctx)),
        _ => None,
    }
}
