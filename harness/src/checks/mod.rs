pub mod c01;
pub mod scenes;

use crate::runner::{Ctx, Outcome};

pub fn dispatch(ctx: &Ctx) -> Option<Outcome> {
    match ctx.prop.as_str() {
        "C01" => Some(c01::run(ctx)),
        "C02" | "C03" | "C05" | "C06" | "C18" => Some(scenes::run(ctx)),
        _ => None,
    }
}
