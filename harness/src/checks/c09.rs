//! C09 - dashes follow the dash pattern along arc length, restarted per subpath.
//!
//! Oracle: an independent arc-length dasher in f64 produces the on-pieces; the C04 region
//! builder turns them into the expected region (margin 0.75 px). The private dash_path is also
//! checked directly on the polyline level through the verif_dash_path hook.

use crate::checks::c04::{cap_of, check_against_region, gen_transform_for_stroke, join_of};
use crate::geom::*;
use crate::json::J;
use crate::prng::Rng;
use crate::runner::*;
use crate::util::*;
use raqote::*;

pub struct Dashed {
    /// pieces as polylines; `closed` only for the all-on closed outline
    pub pieces: Vec<Sub>,
    /// smallest distance (along the path) between a dash boundary and a vertex / subpath end
    pub min_boundary_to_vertex: f64,
    /// the same for the two ends of each subpath only: a boundary there decides whether a piece exists at all
    pub min_boundary_to_end: f64,
    pub on_length: f64,
}

/// the dash pattern as the statement defines it
pub fn dash_model(subs: &[Sub], array: &[f32], offset: f32) -> Dashed {
    let mut out = Dashed { pieces: Vec::new(), min_boundary_to_vertex: f64::INFINITY, min_boundary_to_end: f64::INFINITY, on_length: 0. };
    let mut pat: Vec<f64> = array.iter().map(|v| *v as f64).collect();
    if pat.len() % 2 == 1 {
        let c = pat.clone();
        pat.extend(c);
    }
    let period: f64 = pat.iter().sum();
    if !(period > 0.) || pat.is_empty() {
        return out;
    }
    let phase = (offset as f64).rem_euclid(period);
    for s in subs {
        let mut pts: Vec<P> = s.pts.clone();
        if s.closed {
            let f = pts[0];
            pts.push(f);
        }
        if pts.len() < 2 {
            continue;
        }
        // cumulative arc length
        let mut cum = vec![0.0];
        for i in 1..pts.len() {
            let l = cum[i - 1] + pts[i].dist(pts[i - 1]);
            cum.push(l);
        }
        let total = *cum.last().unwrap();
        if total == 0. {
            continue;
        }
        // on-intervals within [0, total]
        let mut ivs: Vec<(f64, f64)> = Vec::new();
        let mut pos = -phase;
        let mut k = 0usize;
        while pos < total {
            let len = pat[k % pat.len()];
            let on = k % 2 == 0;
            let (a, b) = (pos.max(0.), (pos + len).min(total));
            if on && b > a {
                ivs.push((a, b));
            }
            // boundaries on the path, or so close to its ends that rounding may put them on it (a boundary a
            // hair before the end of an open subpath starts one more piece, of almost no length but with caps)
            for bd in [pos, pos + len] {
                if bd > -1. && bd < total + 1. {
                    for c in &cum {
                        out.min_boundary_to_vertex = out.min_boundary_to_vertex.min((bd - c).abs());
                    }
                    // (the start of the pattern at the start of the subpath under a zero offset is exact for everybody)
                    if !(bd == 0. && phase == 0.) {
                        out.min_boundary_to_end = out.min_boundary_to_end.min(bd.abs()).min((bd - total).abs());
                    }
                }
            }
            pos += len;
            k += 1;
            if k > 2_000_000 {
                break;
            }
        }
        // merge abutting intervals (a zero-length off entry can't occur: entries are positive)
        let point_at = |d: f64| -> P {
            let mut i = 1;
            while i < cum.len() - 1 && cum[i] < d {
                i += 1;
            }
            let seg = cum[i] - cum[i - 1];
            let t = if seg > 0. { (d - cum[i - 1]) / seg } else { 0. };
            pts[i - 1].add(pts[i].sub(pts[i - 1]).mul(t.clamp(0., 1.)))
        };
        let polyline = |a: f64, b: f64| -> Vec<P> {
            let mut v = vec![point_at(a)];
            for i in 1..cum.len() - 1 {
                if cum[i] > a && cum[i] < b {
                    v.push(pts[i]);
                }
            }
            v.push(point_at(b));
            v
        };
        for iv in &ivs {
            out.on_length += iv.1 - iv.0;
        }
        if s.closed && ivs.len() == 1 && ivs[0].0 <= 0. && ivs[0].1 >= total {
            // on over the whole closed subpath: the complete closed outline
            out.pieces.push(Sub { pts: s.pts.clone(), closed: true });
            continue;
        }
        let wraps = s.closed && ivs.len() >= 2 && ivs[0].0 <= 0. && ivs[ivs.len() - 1].1 >= total;
        if wraps {
            let last = ivs.pop().unwrap();
            let first = ivs.remove(0);
            let mut v = polyline(last.0, last.1);
            let w = polyline(first.0, first.1);
            // the end of the subpath is its start: joined there
            v.extend_from_slice(&w[1..]);
            out.pieces.push(Sub { pts: v, closed: false });
        }
        for iv in &ivs {
            out.pieces.push(Sub { pts: polyline(iv.0, iv.1), closed: false });
        }
    }
    out
}

struct Case {
    w: i32,
    h: i32,
    path: Path,
    style: StrokeStyle,
    t: Transform,
    /// every length, dash entry and offset is a whole number and every segment length is exact (axis-aligned or
    /// Pythagorean): a dash boundary that falls on a vertex does so exactly, for the library as for the model
    exact: bool,
}

fn gen_case(rng: &mut Rng) -> Case {
    let w = rng.int(12, 48) as i32;
    let h = rng.int(12, 48) as i32;
    let (wf, hf) = (w as f64, h as f64);
    let mut ops = Vec::new();
    let nsub = 1 + rng.below(2);
    for _ in 0..nsub {
        let n = rng.int(2, 5) as usize;
        let mut pts: Vec<P> = Vec::new();
        let mut guard = 0;
        while pts.len() < n && guard < 100 {
            guard += 1;
            let p = P::new(rng.range(-2., wf + 2.), rng.range(-2., hf + 2.));
            if pts.iter().any(|q| q.dist(p) < 3.) {
                continue;
            }
            // no near-cusps (the outer side of the join would be a coin toss)
            if pts.len() >= 2 {
                let (a, b) = (pts[pts.len() - 2], pts[pts.len() - 1]);
                let (d1, d2) = (b.sub(a), p.sub(b));
                if d1.cross(d2).atan2(d1.dot(d2)).abs() > 2.8 {
                    continue;
                }
            }
            pts.push(p);
        }
        if pts.len() < 2 {
            continue;
        }
        let closed = pts.len() >= 3 && rng.chance(0.5);
        if closed {
            // the closing vertex must not be a near-cusp either
            let n = pts.len();
            let chk = |a: P, b: P, c: P| -> bool {
                let (d1, d2) = (b.sub(a), c.sub(b));
                d1.cross(d2).atan2(d1.dot(d2)).abs() <= 2.8
            };
            if !chk(pts[n - 2], pts[n - 1], pts[0]) || !chk(pts[n - 1], pts[0], pts[1]) {
                // keep it open
                ops.push(PathOp::MoveTo(Point::new(pts[0].x as f32, pts[0].y as f32)));
                for p in &pts[1..] {
                    ops.push(PathOp::LineTo(Point::new(p.x as f32, p.y as f32)));
                }
                continue;
            }
        }
        ops.push(PathOp::MoveTo(Point::new(pts[0].x as f32, pts[0].y as f32)));
        for p in &pts[1..] {
            ops.push(PathOp::LineTo(Point::new(p.x as f32, p.y as f32)));
        }
        if closed {
            ops.push(PathOp::Close);
        }
    }
    let path = Path { ops, winding: if rng.chance(0.4) { Winding::EvenOdd } else { Winding::NonZero } };
    let subs = subpaths(&path, 1);
    let total: f64 = subs.iter().map(|s| {
        let mut l = 0.;
        for i in 1..s.pts.len() {
            l += s.pts[i].dist(s.pts[i - 1]);
        }
        if s.closed && s.pts.len() > 1 {
            l += s.pts[0].dist(s.pts[s.pts.len() - 1]);
        }
        l
    }).fold(0., f64::max);
    let n = rng.int(1, 6) as usize;
    let dash: Vec<f32> = (0..n)
        .map(|_| match rng.below(8) {
            0 => (total * rng.range(1.0, 3.0)) as f32, // longer than the whole path
            1 => rng.range(0.8, 3.) as f32,
            _ => rng.range(2., 25.) as f32,
        })
        .collect();
    let period: f64 = dash.iter().map(|v| *v as f64).sum::<f64>() * if n % 2 == 1 { 2. } else { 1. };
    let offset = match rng.below(8) {
        0 => 0.,
        1 => rng.range(-period, period),
        2 => rng.range(-2e4, 2e4),
        3 => -rng.range(0., 50.),
        _ => rng.range(0., period * 3.),
    } as f32;
    let style = StrokeStyle {
        width: match rng.below(5) {
            0 => rng.range(0.5, 3.),
            _ => rng.range(3., 12.),
        } as f32,
        cap: *rng.pick(&[LineCap::Butt, LineCap::Round, LineCap::Square]),
        join: *rng.pick(&[LineJoin::Miter, LineJoin::Round, LineJoin::Bevel]),
        miter_limit: *rng.pick(&[1.0f32, 2.0, 4.0, 10.0]),
        dash_array: dash,
        dash_offset: offset,
    };
    let t = if rng.chance(0.6) { Transform::identity() } else { gen_transform_for_stroke(rng, w, h) };
    Case { w, h, path, style, t, exact: false }
}

/// Whole-number geometry: axis-aligned polylines with whole side lengths, whole dash lengths and offsets, so
/// that dash boundaries fall exactly on vertices and on the closing point (no rounding involved); round caps
/// and joins, for which a boundary on a vertex is unambiguous. Also several subpaths that start at one point
/// (spokes): the pattern restarts with every one of them.
fn gen_integer_case(rng: &mut Rng) -> Case {
    let w = rng.int(20, 48) as i32;
    let h = rng.int(20, 48) as i32;
    let mut ops = Vec::new();
    if rng.chance(0.15) {
        // a closed polygon with dozens of sides, all of them inside the first dash (which is held back until the
        // subpath closes): round caps and joins
        let n = rng.int(28, 80) as usize;
        let (cx, cy, r) = (w as f64 / 2., h as f64 / 2., w.min(h) as f64 / 2. - 4.);
        for k in 0..n {
            let a = std::f64::consts::TAU * k as f64 / n as f64;
            let p = Point::new((cx + r * a.cos()) as f32, (cy + r * a.sin()) as f32);
            ops.push(if k == 0 { PathOp::MoveTo(p) } else { PathOp::LineTo(p) });
        }
        ops.push(PathOp::Close);
        let circ = (std::f64::consts::TAU * r) as f32;
        let dash = if rng.chance(0.5) { vec![circ * 2., 10.] } else { vec![(circ * rng.range(0.5, 0.95) as f32).floor(), rng.int(3, 12) as f32] };
        let style = StrokeStyle { width: rng.int(1, 4) as f32, cap: LineCap::Round, join: LineJoin::Round, miter_limit: 4., dash_array: dash, dash_offset: 0. };
        return Case { w, h, path: Path { ops, winding: Winding::NonZero }, style, t: Transform::identity(), exact: false };
    }
    if rng.chance(0.15) {
        // out along a line and straight back along it: the dash that turns around there keeps its (round) join
        let y = rng.int(9, h as i64 - 9) as f32;
        let (x0, x1, x2) = (rng.int(4, 10) as f32, w as f32 - rng.int(9, 12) as f32, rng.int(10, w as i64 / 2) as f32);
        ops.push(PathOp::MoveTo(Point::new(x0, y)));
        ops.push(PathOp::LineTo(Point::new(x1, y)));
        ops.push(PathOp::LineTo(Point::new(x2, y)));
        // (wide enough for a pixel to lie well inside the half disc of the join alone)
        let style = StrokeStyle { width: rng.int(9, 15) as f32, cap: LineCap::Round, join: LineJoin::Round, miter_limit: 4., dash_array: vec![(x1 - x0) + rng.int(3, 12) as f32, rng.int(3, 9) as f32], dash_offset: 0. };
        return Case { w, h, path: Path { ops, winding: Winding::NonZero }, style, t: Transform::identity(), exact: true };
    }
    if rng.chance(0.6) {
        // a rectangle (closed or left open), possibly walked from another corner
        let (x0, y0) = (rng.int(2, 8) as f32, rng.int(2, 8) as f32);
        let (sx, sy) = (rng.int(4, w as i64 - 12) as f32, rng.int(4, h as i64 - 12) as f32);
        let corners = [(x0, y0), (x0 + sx, y0), (x0 + sx, y0 + sy), (x0, y0 + sy)];
        let first = rng.below(4) as usize;
        let rev = rng.chance(0.5);
        for k in 0..4 {
            let c = corners[if rev { (first + 4 - k) % 4 } else { (first + k) % 4 }];
            ops.push(if k == 0 { PathOp::MoveTo(Point::new(c.0, c.1)) } else { PathOp::LineTo(Point::new(c.0, c.1)) });
        }
        if rng.chance(0.7) {
            ops.push(PathOp::Close);
        }
    } else {
        // spokes from one centre
        let (cx, cy) = (rng.int(8, w as i64 - 8) as f32, rng.int(8, h as i64 - 8) as f32);
        for _ in 0..rng.int(2, 4) {
            ops.push(PathOp::MoveTo(Point::new(cx, cy)));
            let (dx, dy) = match rng.below(4) { 0 => (1., 0.), 1 => (0., 1.), 2 => (-1., 0.), _ => (0., -1.) };
            let len = rng.int(5, 18) as f32;
            ops.push(PathOp::LineTo(Point::new(cx + dx * len, cy + dy * len)));
            if rng.chance(0.4) {
                ops.push(PathOp::LineTo(Point::new(cx + dx * len + dy * 6., cy + dy * len + dx * 6.)));
            }
        }
    }
    let n = rng.int(1, 4) as usize;
    let dash: Vec<f32> = (0..n).map(|_| rng.int(1, 25) as f32 * if rng.chance(0.2) { 5. } else { 1. }).collect();
    let style = StrokeStyle {
        width: rng.int(1, 5) as f32,
        cap: LineCap::Round,
        join: LineJoin::Round,
        miter_limit: 4.,
        dash_array: dash,
        dash_offset: rng.int(-80, 120) as f32,
    };
    Case { w, h, path: Path { ops, winding: Winding::NonZero }, style, t: Transform::identity(), exact: true }
}

/// Polylines whose every segment has a whole-number length (axis-aligned or a Pythagorean vector such as
/// (20,21) of length 29), whole-number dash entries picked among those lengths and their sums, and offsets that are
/// whole numbers, -0.0, or exact multiples of the pattern length of either sign: dash boundaries land exactly on
/// vertices and on the end of closed subpaths. All arithmetic of the dasher is exact here, so what happens at such a
/// boundary is defined (the piece ending there is capped along the incoming segment, the piece starting there along
/// the outgoing one, and a dash that reaches the end of a closed subpath while the pattern is on at its start is
/// one piece with a join there) - for any cap and join.
fn gen_exact_case(rng: &mut Rng) -> Case {
    const VECS: [(i64, i64, i64); 8] = [(3, 4, 5), (6, 8, 10), (9, 12, 15), (12, 16, 20), (5, 12, 13), (8, 15, 17), (20, 21, 29), (7, 24, 25)];
    let step = |rng: &mut Rng| -> (i64, i64, i64) {
        if rng.chance(0.4) {
            let n = rng.int(5, 30);
            if rng.chance(0.5) { (n * if rng.chance(0.5) { 1 } else { -1 }, 0, n) } else { (0, n * if rng.chance(0.5) { 1 } else { -1 }, n) }
        } else {
            let (a, b, c) = *rng.pick(&VECS);
            let (a, b) = if rng.chance(0.5) { (a, b) } else { (b, a) };
            (a * if rng.chance(0.5) { 1 } else { -1 }, b * if rng.chance(0.5) { 1 } else { -1 }, c)
        }
    };
    let w = rng.int(44, 72) as i64;
    let h = rng.int(44, 72) as i64;
    let mut pts: Vec<(i64, i64)> = Vec::new();
    let mut lens: Vec<i64> = Vec::new();
    let closed;
    if rng.chance(0.5) {
        // closed: a right triangle with axis-aligned legs, a rectangle, or a parallelogram on two exact vectors
        closed = true;
        loop {
            pts.clear();
            lens.clear();
            let (x0, y0) = (rng.int(8, w - 8), rng.int(8, h - 8));
            let (u, v) = (step(rng), step(rng));
            let cross = u.0 * v.1 - u.1 * v.0;
            let dot = u.0 * v.0 + u.1 * v.1;
            if cross == 0 || (dot as f64).abs() > 0.8 * (u.2 * v.2) as f64 {
                continue;
            }
            pts.push((x0, y0));
            pts.push((x0 + u.0, y0 + u.1));
            pts.push((x0 + u.0 + v.0, y0 + u.1 + v.1));
            lens.push(u.2);
            lens.push(v.2);
            let tri = rng.chance(0.4);
            if tri {
                // the closing edge is -(u+v): exact only when u and v are the legs of an exact triangle
                let (cx, cy) = (u.0 + v.0, u.1 + v.1);
                let l2 = cx * cx + cy * cy;
                let l = (l2 as f64).sqrt().round() as i64;
                if l * l != l2 {
                    continue;
                }
                lens.push(l);
            } else {
                pts.push((x0 + v.0, y0 + v.1));
                lens.push(u.2);
                lens.push(v.2);
            }
            if pts.iter().all(|p| p.0 >= 6 && p.0 <= w - 6 && p.1 >= 6 && p.1 <= h - 6) {
                break;
            }
        }
    } else {
        closed = false;
        'outer: loop {
            pts.clear();
            lens.clear();
            pts.push((rng.int(8, w - 8), rng.int(8, h - 8)));
            let n = rng.int(1, 4);
            let mut prev: Option<(i64, i64, i64)> = None;
            for _ in 0..n {
                let u = step(rng);
                if let Some(p) = prev {
                    let dot = p.0 * u.0 + p.1 * u.1;
                    // no reversals, no near-reversals
                    if (dot as f64) < -0.5 * (p.2 * u.2) as f64 {
                        continue 'outer;
                    }
                }
                let l = *pts.last().unwrap();
                let q = (l.0 + u.0, l.1 + u.1);
                if q.0 < 6 || q.0 > w - 6 || q.1 < 6 || q.1 > h - 6 {
                    continue 'outer;
                }
                pts.push(q);
                lens.push(u.2);
                prev = Some(u);
            }
            break;
        }
    }
    let mut ops: Vec<PathOp> = Vec::new();
    for (k, p) in pts.iter().enumerate() {
        let q = Point::new(p.0 as f32, p.1 as f32);
        ops.push(if k == 0 { PathOp::MoveTo(q) } else { PathOp::LineTo(q) });
    }
    if closed {
        // the outline may come back to its start with a line of its own before it is closed (the closing edge
        // then has no length; the subpath is closed all the same, with a join at the start)
        if rng.chance(0.35) {
            ops.push(PathOp::LineTo(Point::new(pts[0].0 as f32, pts[0].1 as f32)));
        }
        ops.push(PathOp::Close);
    }
    // dash entries: lengths of the path's own segments, sums of the first few, halves, and anything
    let total_path: i64 = lens.iter().sum();
    let nd = rng.int(1, 4) as usize;
    let mut dash: Vec<f32> = Vec::new();
    for _ in 0..nd {
        let v = match rng.below(6) {
            0 | 1 => *rng.pick(&lens),
            2 => lens[..1 + rng.below(lens.len() as u64) as usize].iter().sum(),
            3 => total_path,
            4 => {
                let l = *rng.pick(&lens);
                if l % 2 == 0 { l / 2 } else { l }
            }
            _ => rng.int(1, 30),
        };
        dash.push(v.max(1) as f32);
    }
    // gaps of no length now and then (the dashes on either side of one abut; in an array of odd length the entry
    // is a dash of no length the second time round - nothing to paint with butt caps)
    let mut zero_gaps = false;
    if dash.len() >= 2 && rng.chance(0.12) {
        for k in (1..dash.len()).step_by(2) {
            if rng.chance(0.7) {
                dash[k] = 0.;
                zero_gaps = true;
            }
        }
    }
    // entries whose sum is infinite in f32 (each of them is finite): with a positive offset the walk through the
    // entries still has a definite answer
    let huge = rng.chance(0.04);
    if huge {
        zero_gaps = false;
        let n = rng.int(1, 3) as usize;
        dash = (0..n).map(|_| *rng.pick(&[2e38f32, 1e38, 3e38, 2.5e38])).collect();
        if dash.iter().sum::<f32>() * (if n % 2 == 1 { 2. } else { 1. }) != f32::INFINITY {
            dash.push(3e38);
            dash.push(3e38);
        }
    }
    let period: f32 = dash.iter().sum::<f32>() * if dash.len() % 2 == 1 { 2. } else { 1. };
    let offset = match rng.below(8) {
        _ if huge => *rng.pick(&[0.0f32, 1e38, 2.5e38, 3e38, 3.3e38, 1.9e38, 2.1e38]),
        0 => 0.,
        1 => -0.0,
        2 => -period * rng.int(1, 3) as f32,
        3 => period * rng.int(1, 3) as f32,
        4 => dash[0],
        5 => -dash[0],
        6 => *rng.pick(&lens) as f32,
        _ => rng.int(-60, 60) as f32,
    };
    let style = StrokeStyle {
        width: rng.int(4, 10) as f32,
        cap: if zero_gaps { LineCap::Butt } else { *rng.pick(&[LineCap::Butt, LineCap::Butt, LineCap::Square, LineCap::Round]) },
        join: *rng.pick(&[LineJoin::Miter, LineJoin::Round, LineJoin::Bevel]),
        miter_limit: 4.,
        dash_array: dash,
        dash_offset: offset,
    };
    Case { w: w as i32, h: h as i32, path: Path { ops, winding: Winding::NonZero }, style, t: Transform::identity(), exact: true }
}

fn case_desc(c: &Case) -> J {
    let mut d = J::obj();
    d.set("surface", J::s(&format!("{}x{}", c.w, c.h)));
    d.set("path", J::s(&path_str(&c.path)));
    d.set("style", J::s(&crate::gen::style_str(&c.style)));
    d.set("transform", J::s(&transform_str(&c.t)));
    d
}

fn ctx_known_thin(known: &crate::known::Known) -> bool {
    known.active("C09", "thin-piece-orientation-flip")
}

fn run_case(c: &Case, st: &mut Stats, want: bool, known: &crate::known::Known) -> CaseOut {
    let mut co = CaseOut::default();
    co.hash = crate::prng::hash_str(&format!("{:?}{:?}{:?}", c.path, c.style, c.t));
    let subs = subpaths(&c.path, 1);
    let model = dash_model(&subs, &c.style.dash_array, c.style.dash_offset);
    let orientation_free = c.style.cap == LineCap::Round && c.style.join == LineJoin::Round;
    // (round caps and joins make the direction of a sliver of a piece next to a vertex irrelevant, but not whether
    // there is such a sliver at the very start or end of a subpath: it would be a full round dot)
    if (model.min_boundary_to_vertex < 0.02 && !orientation_free || model.min_boundary_to_end < 0.02) && !c.exact {
        st.add("cases_skipped_boundary_on_vertex", 1);
        return co;
    }
    // polyline level: the private dasher through the hook
    let dashed = raqote::verif_dash_path(&c.path, &c.style.dash_array, c.style.dash_offset);
    let mut on_len = 0.;
    let mut cur: Option<P> = None;
    let mut first: Option<P> = None;
    let mut pieces = 0;
    let mut piece_has_len = false;
    let mut off_path = None;
    for op in &dashed.ops {
        match op {
            PathOp::MoveTo(p) => {
                if piece_has_len {
                    pieces += 1;
                }
                piece_has_len = false;
                cur = Some(pt(p));
                first = cur;
            }
            PathOp::LineTo(p) => {
                let q = pt(p);
                if let Some(c0) = cur {
                    let l = c0.dist(q);
                    on_len += l;
                    if l > 1e-6 {
                        piece_has_len = true;
                    }
                }
                if dist_to_outline(&subs, q, false) > 1e-2 && off_path.is_none() {
                    off_path = Some(q);
                }
                cur = Some(q);
            }
            PathOp::Close => {
                if let (Some(c0), Some(f)) = (cur, first) {
                    let l = c0.dist(f);
                    on_len += l;
                    if l > 1e-6 {
                        piece_has_len = true;
                    }
                }
                cur = first;
            }
            _ => co.viol("C09", "the dashed path contains a curve".to_string()),
        }
    }
    if piece_has_len {
        pieces += 1;
    }
    st.add("dash_polylines_checked", 1);
    let total_len: f64 = model.on_length;
    if (on_len - total_len).abs() > 1e-3 * (1. + total_len) + 1e-2 {
        co.viol("C09", format!("dash_path emits {:.4} px of dashes, the pattern's on-intervals add up to {:.4} px", on_len, total_len));
    }
    if let Some(q) = off_path {
        co.viol("C09", format!("dash_path emits the point ({:.3},{:.3}) which is not on the input path", q.x, q.y));
    }
    if pieces != model.pieces.len() && (model.min_boundary_to_vertex > 0.02 || c.exact) {
        co.viol("C09", format!("dash_path emits {} connected pieces, the pattern gives {}", pieces, model.pieces.len()));
    }
    // pixel level
    let mut dt = DrawTarget::new(c.w, c.h);
    super::c04::stroke_possibly_scaled(&mut dt, &c.path, &c.style, &c.t, true, st);
    let t64 = T64::from(&c.t);
    let reg = stroke_region(&model.pieces, c.style.width as f64, cap_of(c.style.cap), join_of(c.style.join), c.style.miter_limit as f64, &t64);
    if reg.ill {
        st.add("cases_skipped_ill_conditioned", 1);
        return co;
    }
    let res = check_against_region(dt.get_data(), c.w, c.h, &reg, 0.75);
    st.add("px_inside_asserted", res.inside);
    st.add("px_outside_asserted", res.outside);
    st.add("px_near_boundary_not_asserted", res.skipped);
    st.add("dash_pieces_modelled", model.pieces.len() as u64);
    co.nontrivial = res.inside > 0 && res.outside > 0 && !model.pieces.is_empty();
    if res.violation.is_some() && res.only_thin_piece_pinholes && ctx_known_thin(known) {
        co.known.push(("C09:thin-piece-orientation-flip".to_string(), res.violation.clone().unwrap()));
    } else if let Some(v) = res.violation {
        co.viol("C09", format!("{} (the pattern gives {} pieces, {:.2} px on)", v.replace("stroke region", "dashed stroke region"), model.pieces.len(), model.on_length));
    }
    if want || !co.violations.is_empty() {
        co.desc = Some(case_desc(c));
    }
    co
}

fn directed() -> Vec<Case> {
    let mk = |ops: Vec<PathOp>, dash: Vec<f32>, off: f32, w: i32, h: i32, cap: LineCap, join: LineJoin, width: f32| Case {
        w,
        h,
        path: Path { ops, winding: Winding::NonZero },
        style: StrokeStyle { width, cap, join, miter_limit: 4., dash_array: dash, dash_offset: off },
        t: Transform::identity(),
        exact: false,
    };
    let p = |x: f32, y: f32| Point::new(x, y);
    let rect = |x: f32, y: f32, w: f32, h: f32| vec![PathOp::MoveTo(p(x, y)), PathOp::LineTo(p(x + w, y)), PathOp::LineTo(p(x + w, y + h)), PathOp::LineTo(p(x, y + h)), PathOp::Close];
    let mut v = Vec::new();
    // finding 7: a closed subpath covered by a single dash
    v.push(mk(rect(8., 8., 20., 20.), vec![1000., 1.], 0., 36, 36, LineCap::Butt, LineJoin::Miter, 5.));
    v.push(mk(rect(8., 8., 20., 20.), vec![1000.], 0., 36, 36, LineCap::Round, LineJoin::Round, 6.));
    // finding 19: dashes on the closing segment
    let gon = vec![PathOp::MoveTo(p(10., 10.)), PathOp::LineTo(p(30., 8.)), PathOp::LineTo(p(38., 26.)), PathOp::LineTo(p(22., 40.)), PathOp::LineTo(p(6., 28.)), PathOp::Close];
    v.push(mk(gon.clone(), vec![6.70, 4.57, 7.12, 101.83, 9.97], 15290.47, 46, 46, LineCap::Butt, LineJoin::Round, 5.));
    let tri = vec![PathOp::MoveTo(p(6., 8.)), PathOp::LineTo(p(40., 10.)), PathOp::LineTo(p(20., 40.)), PathOp::Close];
    v.push(mk(tri.clone(), vec![2.83, 6.91, 78.59], -27.06, 46, 46, LineCap::Butt, LineJoin::Round, 5.));
    v.push(mk(tri.clone(), vec![30., 6., 9., 6.], 12., 46, 46, LineCap::Butt, LineJoin::Miter, 5.));
    v.push(mk(tri, vec![5., 5.], 2.5, 46, 46, LineCap::Square, LineJoin::Bevel, 4.));
    // restart per subpath, odd array, negative offset
    let two = vec![PathOp::MoveTo(p(4., 10.)), PathOp::LineTo(p(44., 10.)), PathOp::MoveTo(p(4., 30.)), PathOp::LineTo(p(44., 30.))];
    v.push(mk(two.clone(), vec![7., 3., 5.], -4., 48, 40, LineCap::Butt, LineJoin::Miter, 6.));
    v.push(mk(two, vec![9.], 100.5, 48, 40, LineCap::Round, LineJoin::Round, 6.));
    // the known thin-piece finding: a 0.2 px long dash piece in front of a wide mitered corner
    let mut thin = mk(
        vec![PathOp::MoveTo(p(5.0773845, 12.661057)), PathOp::LineTo(p(8.768452, 1.5659913)), PathOp::LineTo(p(16.481533, -1.9839377)), PathOp::MoveTo(p(10.738104, -1.8427455)), PathOp::LineTo(p(10.006929, 12.560599)), PathOp::LineTo(p(13.331169, 14.183349)), PathOp::LineTo(p(16.240944, 6.865765))],
        vec![16.13913, 1.8095335, 4.3738565, 15.354441, 16.967087],
        313.63837,
        16,
        13,
        LineCap::Butt,
        LineJoin::Miter,
        10.521669,
    );
    thin.style.miter_limit = 2.0;
    thin.t = Transform::new(1.0, -0.46260524, -0.16476995, 1.0, 1.0710049, 3.700842);
    v.push(thin);
    // corner-spanning dash keeps its join
    let ell = vec![PathOp::MoveTo(p(8., 8.)), PathOp::LineTo(p(36., 8.)), PathOp::LineTo(p(36., 36.))];
    v.push(mk(ell, vec![20., 10.], -18., 46, 46, LineCap::Butt, LineJoin::Miter, 8.));
    v
}

pub fn run(ctx: &Ctx) -> Outcome {
    let mut out = Outcome::new(
        "random polylines (1..2 subpaths, 2..5 vertices at least 3 px apart, open and closed, no near-cusps), dash arrays of 1..6 positive entries (including entries longer than the whole path and odd lengths), offsets of both signs up to +-2e4, all caps/joins, widths 0.5..12, optional transforms; \
         an independent f64 arc-length dasher gives the on-pieces (Euclidean phase, odd arrays doubled, restart per subpath, wrap-around piece of closed subpaths merged, all-on closed subpath = closed outline), the C04 region builder the expected region; pixels inside by more than 0.75 px must be 0xffffffff, outside by more than 0.75 px must be 0. \
         The private dash_path is checked directly (hook): emitted on-length equals the pattern's, every emitted point lies on the input path, number of connected pieces matches. Cases with a dash boundary within 0.02 px of a vertex are skipped unless caps and joins are both Round. Non-trivial: inside and outside pixels asserted and at least one piece; distinct = hash of the case.",
    );
    let d = directed();
    run_cases(ctx, &mut out, SubSpec { name: "directed", cases: d.len() as u64, exhaustive: false, max_secs: 60. }, |i, want, st| run_case(&d[i as usize], st, want, &ctx.known));
    run_cases(ctx, &mut out, SubSpec { name: "dashed_strokes", cases: ctx.n(30_000, 800_000), exhaustive: false, max_secs: if ctx.quick() { 40. } else { 900. } }, |i, want, st| {
        let mut rng = ctx.rng("dashed_strokes", i);
        let c = if i % 6 == 5 { gen_integer_case(&mut rng) } else { gen_case(&mut rng) };
        run_case(&c, st, want, &ctx.known)
    });
    run_cases(ctx, &mut out, SubSpec { name: "dash_boundaries_exactly_on_vertices", cases: ctx.n(6_000, 300_000), exhaustive: false, max_secs: if ctx.quick() { 30. } else { 600. } }, |i, want, st| {
        let mut rng = ctx.rng("dash_boundaries_exactly_on_vertices", i);
        let c = gen_exact_case(&mut rng);
        let subs = subpaths(&c.path, 1);
        let m = dash_model(&subs, &c.style.dash_array, c.style.dash_offset);
        if m.min_boundary_to_vertex == 0. {
            st.add("cases_with_a_dash_boundary_exactly_on_a_vertex", 1);
        }
        run_case(&c, st, want, &ctx.known)
    });
    // a pattern whose total is not positive paints nothing
    run_cases(ctx, &mut out, SubSpec { name: "non_positive_total_paints_nothing", cases: ctx.n(2_000, 100_000), exhaustive: false, max_secs: 30. }, |i, want, st| {
        let mut rng = ctx.rng("non_positive_total_paints_nothing", i);
        let mut c = gen_case(&mut rng);
        c.style.dash_array = rng.pick(&[vec![0.0f32], vec![0., 0.], vec![-1., 1.], vec![-3., 1., 1.], vec![f32::NAN], vec![2., f32::NAN], vec![-5.]]).clone();
        let mut dt = DrawTarget::new(c.w, c.h);
        dt.stroke(&c.path, &Source::Solid(WHITE), &c.style, &opts(BlendMode::SrcOver, 1., true));
        let mut co = CaseOut::default();
        co.hash = crate::prng::hash_str(&format!("{:?}{:?}", c.path, c.style));
        co.nontrivial = true;
        st.add("non_positive_total_strokes", 1);
        if dt.get_data().iter().any(|p| *p != 0) {
            co.viol("C09", format!("dash array {:?} (total not positive) painted something", c.style.dash_array));
        }
        if want || !co.violations.is_empty() {
            co.desc = Some(case_desc(&c));
        }
        co
    });
    out.assume("dash offsets are limited to +-2e4 for the pixel oracle: beyond that the f32 rounding of the period moves the phase by more than the 0.02 px guard (huge, infinite and NaN offsets are exercised by C07)");
    out
}
