//! C17 - contains_point agrees with the fill rule (exact integer oracle on grid polygons, and a
//! cross-check against what fill paints).

use crate::json::J;
use crate::prng::Rng;
use crate::runner::*;
use crate::util::*;
use raqote::*;

/// quarter-grid coordinates (value / 4)
#[derive(Clone, Debug)]
enum QOp {
    Move(i64, i64),
    Line(i64, i64),
    Close,
}

fn to_path(ops: &[QOp], evenodd: bool) -> Path {
    to_path_scaled(ops, evenodd, 0.25)
}

/// grid units times a power of two (exact in f32, so the integer oracle stays exact at any scale)
fn to_path_scaled(ops: &[QOp], evenodd: bool, unit: f32) -> Path {
    Path {
        ops: ops
            .iter()
            .map(|o| match o {
                QOp::Move(x, y) => PathOp::MoveTo(Point::new(*x as f32 * unit, *y as f32 * unit)),
                QOp::Line(x, y) => PathOp::LineTo(Point::new(*x as f32 * unit, *y as f32 * unit)),
                QOp::Close => PathOp::Close,
            })
            .collect(),
        winding: if evenodd { Winding::EvenOdd } else { Winding::NonZero },
    }
}

/// the segments of the implicitly closed subpaths (fill semantics for ops after Close)
fn segments(ops: &[QOp]) -> Vec<(i64, i64, i64, i64)> {
    let mut e = Vec::new();
    let mut cur: Option<(i64, i64)> = None;
    let mut first: Option<(i64, i64)> = None;
    for op in ops {
        match *op {
            QOp::Move(x, y) => {
                if let (Some(c), Some(f)) = (cur, first) {
                    e.push((c.0, c.1, f.0, f.1));
                }
                cur = Some((x, y));
                first = cur;
            }
            QOp::Line(x, y) => {
                if let Some(c) = cur {
                    e.push((c.0, c.1, x, y));
                } else {
                    first = Some((x, y));
                }
                cur = Some((x, y));
            }
            QOp::Close => {
                if let (Some(c), Some(f)) = (cur, first) {
                    e.push((c.0, c.1, f.0, f.1));
                }
                cur = first;
            }
        }
    }
    if let (Some(c), Some(f)) = (cur, first) {
        e.push((c.0, c.1, f.0, f.1));
    }
    e
}

/// exact: is (px, py) on a segment, and the winding number otherwise
fn exact(segs: &[(i64, i64, i64, i64)], px: i64, py: i64) -> (bool, i32) {
    let mut on = false;
    let mut w = 0;
    for &(x1, y1, x2, y2) in segs {
        if x1 == x2 && y1 == y2 {
            continue;
        }
        let cross = (x2 - x1) * (py - y1) - (y2 - y1) * (px - x1);
        if cross == 0 && px >= x1.min(x2) && px <= x1.max(x2) && py >= y1.min(y2) && py <= y1.max(y2) {
            on = true;
        }
        if (y1 <= py) != (y2 <= py) {
            // the edge crosses the horizontal line through the point; is the crossing to the left?
            // x_cross < px  <=>  (for y2 > y1) cross < 0 ... decided exactly with integers
            let left = if y2 > y1 { cross < 0 } else { cross > 0 };
            if left {
                w += if y2 > y1 { 1 } else { -1 };
            }
        }
    }
    (on, w)
}

fn gen_poly(rng: &mut Rng, range: i64) -> Vec<QOp> {
    let mut ops = Vec::new();
    let nsub = 1 + rng.below(3);
    let c = |rng: &mut Rng| -> i64 {
        // (whole pixels mostly - except in the large range, where every bit of a coordinate is wanted)
        if rng.chance(0.7) && range < 1000 {
            rng.int(0, range / 4) * 4
        } else {
            rng.int(0, range)
        }
    };
    for si in 0..nsub {
        let n = rng.int(2, 6);
        let mut last: Option<(i64, i64)> = None;
        for k in 0..n {
            let mut p = (c(rng), c(rng));
            if let Some(l) = last {
                match rng.below(8) {
                    0 => p.1 = l.1, // horizontal edge
                    1 => p.0 = l.0, // vertical edge
                    _ => {}
                }
            }
            if k == 0 && !(si == 0 && rng.chance(0.1)) {
                ops.push(QOp::Move(p.0, p.1));
            } else {
                ops.push(QOp::Line(p.0, p.1));
            }
            last = Some(p);
        }
        match rng.below(4) {
            0 => {}
            1 => {
                ops.push(QOp::Close);
                ops.push(QOp::Line(c(rng), c(rng)));
            }
            _ => ops.push(QOp::Close),
        }
    }
    ops
}

fn check_queries(ops: &[QOp], evenodd: bool, queries: &[(i64, i64)], st: &mut Stats) -> Option<String> {
    check_queries_scaled(ops, evenodd, queries, st, 0.25)
}

fn check_queries_scaled(ops: &[QOp], evenodd: bool, queries: &[(i64, i64)], st: &mut Stats, unit: f32) -> Option<String> {
    let path = to_path_scaled(ops, evenodd, unit);
    let segs = segments(ops);
    for &(qx, qy) in queries {
        let (on, w) = exact(&segs, qx, qy);
        let inside = if evenodd { w & 1 != 0 } else { w != 0 };
        let want = on || inside;
        let got = path.contains_point(0.1, qx as f32 * unit, qy as f32 * unit);
        st.add(if on { "queries_on_a_segment" } else if inside { "queries_inside" } else { "queries_outside" }, 1);
        if got != want {
            return Some(format!("contains_point({}, {}) = {} but the point is {} (winding number {})", qx as f32 * unit, qy as f32 * unit, got, if on { "on a segment".to_string() } else if inside { "inside".to_string() } else { "outside".to_string() }, w));
        }
    }
    None
}

pub fn run(ctx: &Ctx) -> Outcome {
    let mut out = Outcome::new(
        "grid polygons (integer and quarter-grid vertices, 1..3 subpaths, open/closed, ops after Close, missing MoveTo, horizontal and vertical edges, self-intersections) and grid query points, especially points level with a vertex, collinear with an edge beyond its ends, on edges and on vertices: contains_point must equal the exact integer computation \
         (on a segment -> true, else half-open crossing count under the path's rule); every quadrilateral on the 4x4 integer grid x all 49 half-grid points x both rules is enumerated completely; curved and polygonal paths are cross-checked against fill (centres of pixels that are 255 with all neighbours 255 must be contained, 0 with all neighbours 0 must not). \
         Non-trivial: a case with at least one true and one false answer; distinct = hash of the case.",
    );
    let secs = if ctx.quick() { 30. } else { 600. };
    // exhaustive small space
    let total = 16u64.pow(4) * 2;
    run_cases(ctx, &mut out, SubSpec { name: "all_quadrilaterals_on_4x4_grid", cases: total, exhaustive: true, max_secs: 600. }, |i, want, st| {
        let evenodd = i % 2 == 1;
        let mut k = i / 2;
        let mut v = [(0i64, 0i64); 4];
        for p in v.iter_mut() {
            let q = k % 16;
            k /= 16;
            *p = ((q % 4) as i64 * 4, (q / 4) as i64 * 4);
        }
        let ops = vec![QOp::Move(v[0].0, v[0].1), QOp::Line(v[1].0, v[1].1), QOp::Line(v[2].0, v[2].1), QOp::Line(v[3].0, v[3].1), QOp::Close];
        let mut queries = Vec::new();
        for y in 0..7 {
            for x in 0..7 {
                queries.push((x * 2, y * 2));
            }
        }
        let mut co = CaseOut::default();
        co.hash = i;
        co.nontrivial = true;
        if let Some(v) = check_queries(&ops, evenodd, &queries, st) {
            co.viol("C17", v);
        }
        if want || !co.violations.is_empty() {
            co.desc = Some(J::s(&path_str(&to_path(&ops, evenodd))));
        }
        co
    });
    run_cases(ctx, &mut out, SubSpec { name: "random_grid_polygons", cases: ctx.n(300_000, 5_000_000), exhaustive: false, max_secs: secs }, |i, want, st| {
        let mut rng = ctx.rng("random_grid_polygons", i);
        // one case in ten with coordinates of 13 bits (quarter units out to 2000 px): the products in a side-of-line
        // test then need 26 bits. A point exactly on a segment still gives two equal products, however they are
        // rounded; points next to a long edge are within the rounding of f32 and not asked about.
        let big = rng.chance(0.1);
        let range = if big { *rng.pick(&[4099i64, 8191, 6001]) } else { *rng.pick(&[16i64, 32, 48]) };
        let ops = gen_poly(&mut rng, range);
        // (in the large range every coordinate is a multiple of 8 units, so that the points an eighth, a quarter, ...
        // of the way along a side are grid points whose offsets from the side's start keep all their bits)
        let ops: Vec<QOp> = if big { ops.iter().map(|o| match *o { QOp::Move(x, y) => QOp::Move(8 * x, 8 * y), QOp::Line(x, y) => QOp::Line(8 * x, 8 * y), QOp::Close => QOp::Close }).collect() } else { ops };
        let evenodd = rng.chance(0.5);
        // query points: random grid points plus points derived from the vertices
        let mut queries: Vec<(i64, i64)> = if big { Vec::new() } else { (0..12).map(|_| (rng.int(-4, range + 4), rng.int(-4, range + 4))).collect() };
        let verts: Vec<(i64, i64)> = ops.iter().filter_map(|o| match o { QOp::Move(x, y) | QOp::Line(x, y) => Some((*x, *y)), _ => None }).collect();
        if big {
            st.add("polygons_with_13_bit_coordinates", 1);
            for w in verts.windows(2) {
                let (a, b) = (w[0], w[1]);
                queries.push(a);
                for num in 1..8i64 {
                    queries.push((a.0 + (b.0 - a.0) * num / 8, a.1 + (b.1 - a.1) * num / 8));
                }
            }
        }
        if big {
            // (pairs of vertices that belong to different subpaths are not segments: only points the exact test
            // finds on a segment are asked about)
            let segs = segments(&ops);
            queries.retain(|q| exact(&segs, q.0, q.1).0);
        }
        let verts: Vec<(i64, i64)> = if big { Vec::new() } else { verts };
        for v in &verts {
            queries.push(*v);                                 // on a vertex
            queries.push((rng.int(-4, range + 4), v.1));      // level with a vertex
            queries.push((v.0, rng.int(-4, range + 4)));      // same x as a vertex
        }
        for w in verts.windows(2) {
            let (a, b) = (w[0], w[1]);
            queries.push(((a.0 + b.0) / 2, (a.1 + b.1) / 2)); // near / on the edge
            queries.push((2 * b.0 - a.0, 2 * b.1 - a.1));     // collinear beyond the end
            queries.push((2 * a.0 - b.0, 2 * a.1 - b.1));
        }
        let mut co = CaseOut::default();
        co.hash = crate::prng::hash_str(&format!("{:?}{}{:?}", ops, evenodd, queries));
        let path = to_path(&ops, evenodd);
        let answers: Vec<bool> = queries.iter().map(|q| path.contains_point(0.1, q.0 as f32 / 4., q.1 as f32 / 4.)).collect();
        co.nontrivial = answers.iter().any(|a| *a) && answers.iter().any(|a| !*a);
        // the same polygon and queries at another power-of-two scale (tiny and large coordinates)
        let unit = if big { *rng.pick(&[1.0f32 / 32., 1.0 / 8., 1.0 / 1024.]) } else { *rng.pick(&[0.25f32, 0.25, 1.0, 64.0, 1.0 / 1024., 1.0 / 65536., 1.0 / 1048576.]) };
        st.add(&format!("unit:{}", unit), 1);
        if let Some(v) = check_queries_scaled(&ops, evenodd, &queries, st, unit) {
            co.viol("C17", format!("(grid unit {}) {}", unit, v));
        }
        if want || !co.violations.is_empty() {
            let mut d = J::obj();
            d.set("grid_unit", J::s(&format!("{}", unit)));
            d.set("path", J::s(&path_str(&path)));
            d.set("queries(quarter units)", J::s(&format!("{:?}", queries)));
            co.desc = Some(d);
        }
        co
    });
    run_cases(ctx, &mut out, SubSpec { name: "agrees_with_fill", cases: ctx.n(30_000, 500_000), exhaustive: false, max_secs: secs }, |i, want, st| {
        let mut rng = ctx.rng("agrees_with_fill", i);
        let w = rng.int(6, 32) as i32;
        let h = rng.int(6, 32) as i32;
        let curves = rng.chance(0.6);
        // one case in three takes C08's path grammar: several subpaths, commands right after Close (which
        // continue from that subpath's start), curves ending on their start, missing MoveTo, arcs
        let path = if i % 500 == 499 {
            // hundreds of contours around the same area: the point is inside whatever the count
            let n = *rng.pick(&[127usize, 128, 129, 200, 255, 256, 257, 300]);
            let mut pb = PathBuilder::new();
            for k in 0..n {
                let g = (k % 3) as f32 * 0.5;
                pb.rect(2. + g, 2. + g, w as f32 - 4. - 2. * g, h as f32 - 4. - 2. * g);
            }
            st.add("paths_with_hundreds_of_overlapping_contours", 1);
            pb.finish()
        } else if i % 3 == 0 { super::c08::gen_path(&mut rng, w, h, false) } else { crate::gen::random_path(&mut rng, w, h, curves) };
        let mut dt = DrawTarget::new(w, h);
        dt.fill(&path, &Source::Solid(WHITE), &DrawOptions::new());
        let d = dt.get_data();
        let subs = crate::geom::subpaths(&path, 64);
        let mut co = CaseOut::default();
        co.hash = crate::prng::hash_str(&format!("{:?}{:?}", (w, h), path));
        let (mut ins, mut outs) = (0, 0);
        for y in 1..h - 1 {
            for x in 1..w - 1 {
                let mut all_full = true;
                let mut all_empty = true;
                for dy in -1..=1 {
                    for dx in -1..=1 {
                        let v = d[((y + dy) * w + x + dx) as usize];
                        all_full &= v == 0xffffffff;
                        all_empty &= v == 0;
                    }
                }
                // zero-area slivers run through untouched pixels: only points away from every segment count
                let away = crate::geom::dist_to_outline(&subs, crate::geom::P::new(x as f64 + 0.5, y as f64 + 0.5), true) > 0.3;
                if (all_full || all_empty) && away {
                    let got = path.contains_point(0.01, x as f32 + 0.5, y as f32 + 0.5);
                    if all_full {
                        ins += 1
                    } else {
                        outs += 1
                    }
                    if got != all_full {
                        co.viol("C17", format!("contains_point({},{}) = {} but fill {} that pixel and all its neighbours", x as f32 + 0.5, y as f32 + 0.5, got, if all_full { "fully paints" } else { "leaves untouched" }));
                    }
                }
            }
        }
        st.add("fill_px_deep_inside_checked", ins);
        st.add("fill_px_deep_outside_checked", outs);
        co.nontrivial = ins > 0 && outs > 0;
        if want || !co.violations.is_empty() {
            let mut dj = J::obj();
            dj.set("surface", J::s(&format!("{}x{}", w, h)));
            dj.set("path", J::s(&path_str(&path)));
            co.desc = Some(dj);
        }
        co
    });
    out.assume("grid coordinates keep contains_point's own f32 cross products exact, so the oracle can be exact");
    out
}
