//! C15 - surface copies and blends place exactly the requested block (reference block transfer).

use crate::json::J;
use crate::prng::Rng;
use crate::runner::*;
use crate::scene::{deviation, expect_pixel, opacity_byte, TAU};
use crate::util::*;
use raqote::*;

#[derive(Clone, Debug)]
struct Case {
    sw: i32,
    sh: i32,
    dw: i32,
    dh: i32,
    /// src_rect min x, min y, max x, max y
    r: (i32, i32, i32, i32),
    dst: (i32, i32),
    /// 0 copy, 1 blend, 2 blend with alpha
    entry: u8,
    mode: usize,
    alpha: f32,
    /// put a transform, a clip and an open layer on the destination first (they must be ignored)
    decorated: bool,
    seed: u64,
}

fn run_case(c: &Case, st: &mut Stats, want: bool) -> CaseOut {
    let mut rng = Rng::new(c.seed, "c15-pixels", 0);
    let sn = (c.sw * c.sh) as usize;
    let dn = (c.dw * c.dh) as usize;
    let mut spix = canary(&mut rng, sn);
    let dpix = canary(&mut rng, dn);
    // sources with whole rows of one kind now and then: black at some opacity (colour channels all zero, alpha not),
    // transparent, one colour throughout, black and transparent mixed - rows a transfer may be tempted to skip or
    // to treat as a run
    if c.seed % 5 == 1 && c.sw > 0 {
        for y in 0..c.sh as usize {
            let kind = rng.below(8);
            if kind >= 5 {
                continue;
            }
            let one = canary(&mut rng, 1)[0];
            for x in 0..c.sw as usize {
                spix[y * c.sw as usize + x] = match kind {
                    0 => 0xff000000,
                    1 => (rng.below(255) as u32 + 1) << 24,
                    2 => 0,
                    3 => one,
                    _ => if rng.chance(0.5) { 0 } else { (rng.below(255) as u32 + 1) << 24 },
                };
            }
        }
    }
    // (now and then built from a longer, recycled vector: what lies beyond width x height is not part of the surface)
    let mut src = if c.seed % 11 == 4 {
        let mut v = spix.clone();
        v.extend((0..(2 * c.sw.max(1) + 3) as u32).map(|k| 0xff00ff00 ^ (k * 0x00010203)));
        DrawTarget::from_vec(c.sw, c.sh, v)
    } else {
        DrawTarget::from_vec(c.sw, c.sh, spix.clone())
    };
    // the source's own transform, clip and open layers are none of the copy's business either: what is
    // copied is the source's pixels (what its get_data shows)
    if c.seed % 7 == 3 {
        src.set_transform(&Transform::translation(1., 1.));
        src.push_clip_rect(IntRect::new(IntPoint::new(1, 0), IntPoint::new(c.sw.max(2), c.sh.max(1))));
        src.push_layer(0.5);
        src.fill_rect(0., 0., c.sw as f32, c.sh as f32, &Source::Solid(solid(0x80102030)), &opts(BlendMode::SrcOver, 1., true));
        st.add("sources_with_an_open_layer", 1);
    }
    let spix: Vec<u32> = src.get_data().to_vec();
    // now and then the destination already holds, pixel for pixel, what is about to land on it (a blend after a copy
    // at the same place): for a copy nothing changes, for a blend everything may
    let mut dpix = dpix;
    if c.seed % 13 == 5 {
        for qy in 0..c.dh {
            for qx in 0..c.dw {
                let (px, py) = (c.r.0 as i64 + (qx as i64 - c.dst.0 as i64), c.r.1 as i64 + (qy as i64 - c.dst.1 as i64));
                if px >= c.r.0 as i64 && px < c.r.2 as i64 && py >= c.r.1 as i64 && py < c.r.3 as i64 && px >= 0 && px < c.sw as i64 && py >= 0 && py < c.sh as i64 {
                    dpix[(qy * c.dw + qx) as usize] = spix[(py * c.sw as i64 + px) as usize];
                }
            }
        }
        st.add("destinations_that_already_hold_the_source_block", 1);
    }
    let dpix = dpix;
    let mut dst = DrawTarget::from_vec(c.dw, c.dh, dpix.clone());
    if c.decorated {
        dst.set_transform(&Transform::translation(3., 2.).then_scale(2., 0.5));
        dst.push_clip_rect(IntRect::new(IntPoint::new(0, 0), IntPoint::new(1, 1)));
        dst.push_layer(0.5);
    }
    let rect = IntRect::new(IntPoint::new(c.r.0, c.r.1), IntPoint::new(c.r.2, c.r.3));
    let at = IntPoint::new(c.dst.0, c.dst.1);
    let mode = MODES[c.mode].0;
    match c.entry {
        0 => dst.copy_surface(&src, rect, at),
        1 => dst.blend_surface(&src, rect, at, mode),
        _ => dst.blend_surface_with_alpha(&src, rect, at, c.alpha),
    }
    let got = dst.get_data().to_vec();
    let mut co = CaseOut::default();
    co.hash = crate::prng::hash_str(&format!("{:?}", c));
    let mut moved = 0;
    let mut kept = 0;
    let ab = opacity_byte(c.alpha);
    for qy in 0..c.dh {
        for qx in 0..c.dw {
            let k = (qy * c.dw + qx) as usize;
            let d = dpix[k];
            // the source pixel that lands on q
            let (px, py) = (c.r.0 + (qx - c.dst.0), c.r.1 + (qy - c.dst.1));
            let inside = px >= c.r.0 && px < c.r.2 && py >= c.r.1 && py < c.r.3 && px >= 0 && px < c.sw && py >= 0 && py < c.sh;
            if !inside {
                kept += 1;
                st.add("px_unchanged_asserted", 1);
                if got[k] != d {
                    co.viol("C15", format!("destination pixel ({},{}) receives no source pixel but changed {} -> {}", qx, qy, hex(d), hex(got[k])));
                    break;
                }
                continue;
            }
            moved += 1;
            let s = spix[(py * c.sw + px) as usize];
            match c.entry {
                0 => {
                    st.add("px_copied_asserted", 1);
                    if got[k] != s {
                        co.viol("C15", format!("copy_surface: destination ({},{}) = {} but source pixel ({},{}) = {} lands there", qx, qy, hex(got[k]), px, py, hex(s)));
                    }
                }
                1 => {
                    let want_px = blend_of_record(mode)(s, d);
                    st.add("px_blended_asserted", 1);
                    if got[k] != want_px {
                        co.viol("C15", format!("blend_surface({}): destination ({},{}) = {} but {}(source ({},{}) = {}, {}) = {}", mode_name(mode), qx, qy, hex(got[k]), mode_name(mode), px, py, hex(s), hex(d), hex(want_px)));
                    }
                }
                _ => {
                    let e = expect_pixel(s, d, ab, 255, BlendMode::SrcOver);
                    st.add("px_alpha_blended_asserted", 1);
                    if let Some(x) = e.exact {
                        if got[k] != x {
                            co.viol("C15", format!("blend_surface_with_alpha({}): destination ({},{}) = {} but exactly {} is required (source {}, before {})", c.alpha, qx, qy, hex(got[k]), hex(x), hex(s), hex(d)));
                        }
                    } else {
                        let dev = deviation(got[k], &e.ideal);
                        st.max("max_alpha_blend_deviation_lsb", dev);
                        if dev > TAU {
                            co.viol("C15", format!("blend_surface_with_alpha({}): destination ({},{}) = {} deviates {:.2} LSB from source-over of {} scaled by alpha over {}", c.alpha, qx, qy, hex(got[k]), dev, hex(s), hex(d)));
                        }
                    }
                }
            }
            if !co.violations.is_empty() {
                break;
            }
        }
        if !co.violations.is_empty() {
            break;
        }
    }
    if c.decorated {
        // the open layer must still be there and untouched, the transform unchanged
        if let Some((buf, _, _, _)) = dst.verif_layer(0) {
            if buf.iter().any(|p| *p != 0) {
                co.viol("C15", "the open layer was written to".to_string());
            }
        } else {
            co.viol("C15", "the open layer disappeared".to_string());
        }
    }
    co.nontrivial = moved > 0 && kept > 0;
    if want || !co.violations.is_empty() {
        let mut d = J::obj();
        d.set("source", J::s(&format!("{}x{}", c.sw, c.sh)));
        d.set("destination", J::s(&format!("{}x{}", c.dw, c.dh)));
        d.set("src_rect", J::s(&format!("({},{})-({},{})", c.r.0, c.r.1, c.r.2, c.r.3)));
        d.set("dst", J::s(&format!("({},{})", c.dst.0, c.dst.1)));
        d.set("entry", J::s(match c.entry { 0 => "copy_surface", 1 => "blend_surface", _ => "blend_surface_with_alpha" }));
        d.set("mode", J::s(mode_name(mode)));
        d.set("alpha", J::s(&fmt_f(c.alpha)));
        d.set("destination_has_transform_clip_layer", J::Bool(c.decorated));
        d.set("source_pixels", pixels_json(&spix));
        d.set("destination_pixels", pixels_json(&dpix));
        co.desc = Some(d);
    }
    co
}

/// does the model transfer at least one pixel (used to bias the sampling towards non-trivial cases)
fn transfers(c: &Case) -> bool {
    for qy in 0..c.dh {
        for qx in 0..c.dw {
            let (px, py) = (c.r.0 + (qx - c.dst.0), c.r.1 + (qy - c.dst.1));
            if px >= c.r.0 && px < c.r.2 && py >= c.r.1 && py < c.r.3 && px >= 0 && px < c.sw && py >= 0 && py < c.sh {
                return true;
            }
        }
    }
    false
}

// the small space: sizes 0..=3, src_rect corners in -2..=5, dst in -4..=5
const SIZES: u64 = 4;
const RC: u64 = 8;
const DC: u64 = 10;

fn small_space_total() -> u64 {
    SIZES.pow(4) * RC.pow(4) * DC.pow(2) * 3
}

fn small_case(mut k: u64) -> Case {
    let mut take = |n: u64| -> u64 {
        let v = k % n;
        k /= n;
        v
    };
    let entry = take(3) as u8;
    let dst = (take(DC) as i32 - 4, take(DC) as i32 - 4);
    let r = (take(RC) as i32 - 2, take(RC) as i32 - 2, take(RC) as i32 - 2, take(RC) as i32 - 2);
    let (sw, sh, dw, dh) = (take(SIZES) as i32, take(SIZES) as i32, take(SIZES) as i32, take(SIZES) as i32);
    let idx = k;
    let _ = idx;
    let h = crate::prng::hash_u64s(&[entry as u64, dst.0 as u64, dst.1 as u64, r.0 as u64, r.1 as u64, r.2 as u64, r.3 as u64, sw as u64, sh as u64, dw as u64, dh as u64]);
    Case { sw, sh, dw, dh, r, dst, entry, mode: (h % 28) as usize, alpha: [0.0f32, 1.0, 0.5, 0.25, 1.0 / 255., 0.999][(h >> 8) as usize % 6], decorated: (h >> 16) % 5 == 0, seed: h }
}

pub fn run(ctx: &Ctx) -> Outcome {
    let mut out = Outcome::new(
        "copy_surface / blend_surface / blend_surface_with_alpha against a reference block transfer: destination pixel q receives source pixel src_rect.min + (q - dst) iff that pixel lies in src_rect and in the source surface; every other destination pixel is unchanged. \
         Small space: source and destination sizes 0..3 x 0..3, src_rect corners in [-2,5]^4 (including empty and inverted), dst in [-4,5]^2, three entry points (sampled in quick, enumerated completely in thorough); plus random larger sizes and far-away rectangles. \
         Non-trivial: at least one pixel transferred and at least one asserted unchanged; distinct = hash of the case.",
    );
    let total = small_space_total();
    if ctx.quick() || ctx.scale_div > 1 || ctx.miri {
        let n = if ctx.miri { 6_000 } else { ctx.n(1_000_000, 4_000_000) };
        run_cases(ctx, &mut out, SubSpec { name: "small_space_sampled", cases: n, exhaustive: false, max_secs: 40. }, |i, want, st| {
            let mut rng = ctx.rng("small_space_sampled", i);
            // 3 of 4 samples are redrawn until the model transfers a pixel (most of the space transfers nothing)
            let mut c = small_case(rng.below(total));
            if i % 4 != 0 {
                for _ in 0..200 {
                    if transfers(&c) {
                        break;
                    }
                    c = small_case(rng.below(total));
                }
            }
            run_case(&c, st, want)
        });
    } else {
        run_cases(ctx, &mut out, SubSpec { name: "small_space_exhaustive", cases: total, exhaustive: true, max_secs: 3000. }, |i, want, st| run_case(&small_case(i), st, want));
    }
    run_cases(ctx, &mut out, SubSpec { name: "random_larger", cases: if ctx.miri { 4_000 } else { ctx.n(300_000, 5_000_000) }, exhaustive: false, max_secs: if ctx.quick() { 25. } else { 600. } }, |i, want, st| {
        let mut rng = ctx.rng("random_larger", i);
        let (sw, sh, dw, dh) = (rng.int(0, 12) as i32, rng.int(0, 12) as i32, rng.int(0, 12) as i32, rng.int(0, 12) as i32);
        let far = rng.chance(0.1);
        let lim = if far { 100_000_000 } else { 16 };
        let near = !far && rng.chance(0.8);
        let x0 = if near { rng.int(-3, sw as i64) as i32 } else { rng.int(-lim, lim) as i32 };
        let y0 = if near { rng.int(-3, sh as i64) as i32 } else { rng.int(-lim, lim) as i32 };
        let r = if rng.chance(0.85) { (x0, y0, x0 + rng.int(0, 14) as i32, y0 + rng.int(0, 14) as i32) } else { (x0, y0, rng.int(-lim, lim) as i32, rng.int(-lim, lim) as i32) };
        let dst = if near { (rng.int(-6, dw as i64 + 1) as i32, rng.int(-6, dh as i64 + 1) as i32) } else { (rng.int(-lim, lim) as i32, rng.int(-lim, lim) as i32) };
        // a huge source rectangle that starts far to the upper left and still takes in the source, with the
        // destination point as far out, so that the block lands on the destination after all
        let (r, dst) = if rng.chance(0.05) {
            let big = |rng: &mut crate::prng::Rng| -> i32 { -(*rng.pick(&[1i64 << 20, 1 << 28, 1 << 29, (1 << 29) + 12345, 1 << 30, (1 << 30) + 7]) as i32) };
            let (mx, my) = (big(&mut rng), if rng.chance(0.7) { big(&mut rng) } else { rng.int(-3, 3) as i32 });
            let max = if rng.chance(0.5) { (sw + rng.int(-2, 3) as i32, sh + rng.int(-2, 3) as i32) } else { (*rng.pick(&[1i64 << 20, 1 << 29, 1 << 30, i32::MAX as i64, (1 << 30) + 99]) as i32, *rng.pick(&[1i64 << 20, 1 << 29, 1 << 30, i32::MAX as i64]) as i32) };
            ((mx, my, max.0, max.1), (mx + rng.int(-4, dw as i64) as i32, my + rng.int(-4, dh as i64) as i32))
        } else {
            (r, dst)
        };
        let c = Case {
            sw,
            sh,
            dw,
            dh,
            r,
            dst,
            entry: rng.below(3) as u8,
            mode: rng.below(28) as usize,
            alpha: *rng.pick(&[0.0f32, 1.0, 0.5, 0.3, 2.0, -1.0, f32::NAN, 1.0 / 255., 254. / 255., 255. / 256., 1.5, f32::INFINITY, 128. / 255.]),
            decorated: rng.chance(0.2),
            seed: rng.next_u64(),
        };
        run_case(&c, st, want)
    });
    out.assume("blend_surface_with_alpha is judged with the C03 SrcOver rule (exact at alpha byte 0 and 255, 3 LSB between)");
    out
}
