//! C20 - PathBuilder helpers and Path::transform produce the documented geometry.

use crate::geom::*;
use crate::json::J;
use crate::prng::Rng;
use crate::runner::*;
use crate::util::*;
use raqote::*;

fn bits_eq(a: &Point, b: &Point) -> bool {
    a.x.to_bits() == b.x.to_bits() && a.y.to_bits() == b.y.to_bits()
}

fn check_rect(x: f32, y: f32, w: f32, h: f32) -> Option<String> {
    let mut pb = PathBuilder::new();
    pb.rect(x, y, w, h);
    let p = pb.finish();
    if p.winding != Winding::NonZero {
        return Some("finish() did not return NonZero winding".to_string());
    }
    let want = [Point::new(x, y), Point::new(x + w, y), Point::new(x + w, y + h), Point::new(x, y + h)];
    if p.ops.len() != 5 {
        return Some(format!("rect produced {} ops", p.ops.len()));
    }
    for (i, op) in p.ops.iter().enumerate() {
        let ok = match (i, op) {
            (0, PathOp::MoveTo(q)) => bits_eq(q, &want[0]),
            (1, PathOp::LineTo(q)) => bits_eq(q, &want[1]),
            (2, PathOp::LineTo(q)) => bits_eq(q, &want[2]),
            (3, PathOp::LineTo(q)) => bits_eq(q, &want[3]),
            (4, PathOp::Close) => true,
            _ => false,
        };
        if !ok {
            return Some(format!("rect({},{},{},{}) op #{} is {:?}", x, y, w, h, i, op));
        }
    }
    None
}

/// what was built before the arc (the arc must not depend on it, apart from starting with a line
/// from wherever the current point is to the arc's starting point)
/// `circle` is the checked arc's (cx, cy, r, start): prefixes 10 and 11 draw an earlier arc on the same circle
/// that ends (by its raw start + sweep, more than a full turn) exactly at the angle where the checked arc starts
fn build_prefix(pb: &mut PathBuilder, prefix: u64, arc_start: (f32, f32), circle: (f32, f32, f32, f32)) {
    match prefix {
        10 | 11 => {
            let s1 = if prefix == 10 { 7.0f32 } else { -9.5 };
            pb.move_to(0., 0.);
            // (start - s1) + s1 may differ from start by an ulp: the caller chose start so that it does not
            pb.arc(circle.0, circle.1, circle.2, circle.3 - s1, s1);
        }
        0 => {}
        1 => pb.move_to(3., -2.),
        2 => {
            pb.move_to(1., 1.);
            pb.line_to(arc_start.0, arc_start.1); // the current point already is the arc's starting point
        }
        3 => pb.rect(10., 10., 20., 20.),
        4 => {
            // a closed subpath whose last vertex is the arc's starting point (the current point is its first)
            pb.move_to(-5., 7.);
            pb.line_to(2., 9.);
            pb.line_to(arc_start.0, arc_start.1);
            pb.close();
        }
        5 => {
            // a closed subpath that starts at the arc's starting point
            pb.move_to(arc_start.0, arc_start.1);
            pb.line_to(2., 9.);
            pb.line_to(4., -3.);
            pb.close();
        }
        6 => {
            pb.move_to(0., 0.);
            pb.arc(1., 2., 3., 0.5, 2.);
        }
        8 => {
            // a zero-radius arc first
            pb.move_to(1., 1.);
            pb.arc(7., -3., 0., 1., 2.);
        }
        9 => {
            pb.rect(2., 2., 0., 0.);
            pb.arc(4., 4., 2., 0., -9.);
        }
        _ => {
            pb.move_to(0., 0.);
            pb.quad_to(5., 5., arc_start.0, arc_start.1);
            pb.cubic_to(1., 2., 3., 4., 5., 6.);
        }
    }
}

fn check_arc(cx: f32, cy: f32, r: f32, start: f32, sweep: f32, prefix: u64, st: &mut Stats) -> Option<String> {
    // the arc's own starting point, taken from an arc built on an empty builder
    let mut probe = PathBuilder::new();
    probe.arc(cx, cy, r, start, sweep);
    let probe = probe.finish();
    let arc_start = match probe.ops.first() {
        Some(PathOp::LineTo(q)) => (q.x, q.y),
        o => return Some(format!("arc on an empty builder starts with {:?}, not with a LineTo", o)),
    };
    let mut pb = PathBuilder::new();
    build_prefix(&mut pb, prefix, arc_start, (cx, cy, r, start));
    let mut tmp = PathBuilder::new();
    build_prefix(&mut tmp, prefix, arc_start, (cx, cy, r, start));
    let n0 = tmp.finish().ops.len();
    pb.arc(cx, cy, r, start, sweep);
    let full = pb.finish();
    // the ops the arc appended must be the same whatever came before
    let appended = &full.ops[n0.min(full.ops.len())..];
    if appended.len() != probe.ops.len() || !appended.iter().zip(probe.ops.iter()).all(|(a, b)| same_op(a, b)) {
        return Some(format!("arc({},{},{},{},{}) appended {:?} after prefix #{} but {:?} on an empty builder", cx, cy, r, start, sweep, appended, prefix, probe.ops));
    }
    st.add(&format!("arc_prefix_{}", prefix), 1);
    let from = (3.0f32, -2.0f32);
    let mut pb = PathBuilder::new();
    pb.move_to(from.0, from.1);
    pb.arc(cx, cy, r, start, sweep);
    let p = pb.finish();
    let c = P::new(cx as f64, cy as f64);
    let rr = r as f64;
    let tol_r = 0.005 * rr + 4. * (f32::EPSILON as f64) * (1. + cx.abs().max(cy.abs()) as f64 + rr);
    if p.ops.len() < 2 {
        return Some("arc produced no ops".to_string());
    }
    match &p.ops[0] {
        PathOp::MoveTo(q) if q.x == from.0 && q.y == from.1 => {}
        o => return Some(format!("the first op is {:?}", o)),
    }
    // a straight line from the current point to the arc's starting point
    let sp = match &p.ops[1] {
        PathOp::LineTo(q) => pt(q),
        o => return Some(format!("arc does not begin with a LineTo to its starting point but with {:?}", o)),
    };
    let (s64, sw64) = (start as f64, sweep as f64);
    let want_start = P::new(c.x + rr * s64.cos(), c.y + rr * s64.sin());
    // f32 positions near (cx, cy) are quantised: a tiny radius far from the origin has no meaningful angles
    let ang_q = if rr > 0. { 4. * (f32::EPSILON as f64) * (cx.abs().max(cy.abs()) as f64 + rr) / rr } else { 0. };
    let ang_tol = 1e-3 + 4. * (start.abs() as f64) * (f32::EPSILON as f64) + ang_q;
    let check_angles = rr > 0. && ang_q < 0.01;
    if sp.dist(want_start) > tol_r + rr * ang_tol {
        return Some(format!("arc({},{},{},{},{}) starts at ({:.4},{:.4}), expected ({:.4},{:.4})", cx, cy, r, start, sweep, sp.x, sp.y, want_start.x, want_start.y));
    }
    // walk the quads
    let mut cur = sp;
    let mut total = 0f64; // accumulated signed angle (increasing = clockwise on screen, y down)
    let dir = if sweep >= 0. { 1. } else { -1. };
    let mut prev = cur.sub(c);
    for (i, op) in p.ops.iter().enumerate().skip(2) {
        let (ctrl, to) = match op {
            PathOp::QuadTo(c1, q) => (pt(c1), pt(q)),
            o => return Some(format!("arc op #{} is {:?}, expected only QuadTo after the initial LineTo", i, o)),
        };
        for k in 1..=32 {
            let q = quad_at(cur, ctrl, to, k as f64 / 32.);
            let v = q.sub(c);
            st.add("arc_samples_checked", 1);
            if (v.len() - rr).abs() > tol_r {
                return Some(format!("arc({},{},{},{},{}): the curve point ({:.4},{:.4}) is at distance {:.5} from the centre, not r within 0.5%", cx, cy, r, start, sweep, q.x, q.y, v.len()));
            }
            if check_angles {
                let d = prev.cross(v).atan2(prev.dot(v));
                if d * dir < -1e-4 - 2. * ang_q {
                    return Some(format!("arc({},{},{},{},{}) runs backwards at op #{} (angle step {:.5})", cx, cy, r, start, sweep, i, d));
                }
                total += d;
                prev = v;
            }
        }
        cur = to;
    }
    if check_angles {
        let want_total = sw64.clamp(-std::f64::consts::TAU, std::f64::consts::TAU);
        if (total - want_total).abs() > ang_tol + 2e-3 {
            return Some(format!("arc({},{},{},{},{}) covers {:.5} rad, expected {:.5}", cx, cy, r, start, sweep, total, want_total));
        }
        let want_end = P::new(c.x + rr * (s64 + want_total).cos(), c.y + rr * (s64 + want_total).sin());
        if cur.dist(want_end) > tol_r + rr * (ang_tol + 2e-3) {
            return Some(format!("arc({},{},{},{},{}) ends at ({:.4},{:.4}), expected ({:.4},{:.4})", cx, cy, r, start, sweep, cur.x, cur.y, want_end.x, want_end.y));
        }
    }
    None
}

fn random_ops(rng: &mut Rng) -> (PathBuilder, Vec<PathOp>) {
    let mut pb = PathBuilder::new();
    let mut want = Vec::new();
    let n = rng.int(0, 10);
    // coordinates used so far: a later call may name one of them again exactly (a move_to to where the path is,
    // a line back to the subpath's start before close(), a rect at the end of a line)
    let used: std::cell::RefCell<Vec<f32>> = std::cell::RefCell::new(Vec::new());
    let pair: std::cell::RefCell<Vec<(f32, f32)>> = std::cell::RefCell::new(Vec::new());
    let f = |rng: &mut Rng| -> f32 {
        let v = match rng.below(8) {
            0 => 0.,
            1 => -0.0,
            2 => rng.range(-4000., 4000.) as f32,
            3 => f32::MIN_POSITIVE,
            _ => rng.range(-50., 50.) as f32,
        };
        used.borrow_mut().push(v);
        v
    };
    // a point: fresh, or one of the points named before
    let pt = |rng: &mut Rng| -> (f32, f32) {
        let p = if !pair.borrow().is_empty() && rng.chance(0.3) { *rng.pick(&pair.borrow()[..]) } else { (f(rng), f(rng)) };
        pair.borrow_mut().push(p);
        p
    };
    for _ in 0..n {
        match rng.below(6) {
            0 => {
                let (x, y) = pt(rng);
                pb.move_to(x, y);
                want.push(PathOp::MoveTo(Point::new(x, y)));
            }
            1 => {
                let (x, y) = pt(rng);
                pb.line_to(x, y);
                want.push(PathOp::LineTo(Point::new(x, y)));
            }
            2 => {
                let (a, b, c, d) = (f(rng), f(rng), f(rng), f(rng));
                pb.quad_to(a, b, c, d);
                want.push(PathOp::QuadTo(Point::new(a, b), Point::new(c, d)));
            }
            3 => {
                let v = [f(rng), f(rng), f(rng), f(rng), f(rng), f(rng)];
                pb.cubic_to(v[0], v[1], v[2], v[3], v[4], v[5]);
                want.push(PathOp::CubicTo(Point::new(v[0], v[1]), Point::new(v[2], v[3]), Point::new(v[4], v[5])));
            }
            4 => {
                pb.close();
                want.push(PathOp::Close);
            }
            _ => {
                let (x, y) = pt(rng);
                let (w, h) = (f(rng), f(rng));
                pb.rect(x, y, w, h);
                want.push(PathOp::MoveTo(Point::new(x, y)));
                want.push(PathOp::LineTo(Point::new(x + w, y)));
                want.push(PathOp::LineTo(Point::new(x + w, y + h)));
                want.push(PathOp::LineTo(Point::new(x, y + h)));
                want.push(PathOp::Close);
            }
        }
    }
    (pb, want)
}

fn same_op(a: &PathOp, b: &PathOp) -> bool {
    match (a, b) {
        (PathOp::MoveTo(p), PathOp::MoveTo(q)) | (PathOp::LineTo(p), PathOp::LineTo(q)) => bits_eq(p, q),
        (PathOp::QuadTo(a1, a2), PathOp::QuadTo(b1, b2)) => bits_eq(a1, b1) && bits_eq(a2, b2),
        (PathOp::CubicTo(a1, a2, a3), PathOp::CubicTo(b1, b2, b3)) => bits_eq(a1, b1) && bits_eq(a2, b2) && bits_eq(a3, b3),
        (PathOp::Close, PathOp::Close) => true,
        _ => false,
    }
}

pub fn run(ctx: &Ctx) -> Outcome {
    let mut out = Outcome::new(
        "PathBuilder::rect over finite parameters incl. negative and zero sizes (exact corners and op order); PathBuilder::arc over centres, radii >= 0, start angles up to +-100 rad and sweeps of both signs from 1e-6 to several turns: initial LineTo to the start point, every sampled curve point at distance r within 0.5%, angle monotone in the sweep's direction (increasing = clockwise on screen), total angle = sweep clamped to one full turn, end point where expected; \
         Path::transform maps every point of every op bit for bit by Transform::transform_point and keeps kinds, order and winding; finish() returns the ops in call order with NonZero winding. Non-trivial: a case with at least one curve or more than three ops; distinct = hash of the parameters.",
    );
    let secs = if ctx.quick() { 30. } else { 600. };
    run_cases(ctx, &mut out, SubSpec { name: "rect_and_arc", cases: ctx.n(500_000, 8_000_000), exhaustive: false, max_secs: secs }, |i, want, st| {
        let mut rng = ctx.rng("rect_and_arc", i);
        let mut co = CaseOut::default();
        co.hash = i;
        co.nontrivial = true;
        let f = |rng: &mut Rng| -> f32 {
            match rng.below(8) {
                0 => 0.,
                1 => rng.int(-100, 100) as f32,
                2 => rng.range(-4000., 4000.) as f32,
                _ => rng.range(-100., 100.) as f32,
            }
        };
        let (x, y, w, h) = (f(&mut rng), f(&mut rng), f(&mut rng), f(&mut rng));
        st.add("rects_checked", 1);
        if let Some(v) = check_rect(x, y, w, h) {
            co.viol("C20", v);
        }
        let r = match rng.below(9) {
            0 => 0.,
            1 => 1e-3,
            // radii below every absolute epsilon an implementation might use (only meaningful near the origin)
            8 => *rng.pick(&[1e-5f32, 7.6e-6, 1.5e-5, 1e-4, 3e-5]),
            2 => rng.range(100., 2000.) as f32,
            _ => rng.range(0.1, 100.) as f32,
        };
        let start = match rng.below(8) {
            0 => 0.,
            1 => *rng.pick(&[std::f32::consts::PI, -std::f32::consts::PI, std::f32::consts::FRAC_PI_2, 2. * std::f32::consts::PI]),
            2 => rng.range(-100., 100.) as f32,
            _ => rng.range(-7., 7.) as f32,
        };
        let sweep = match rng.below(10) {
            0 => *rng.pick(&[1e-6f32, -1e-6, 1e-3, -1e-3]),
            1 => *rng.pick(&[std::f32::consts::PI, -std::f32::consts::PI, std::f32::consts::FRAC_PI_2, -std::f32::consts::FRAC_PI_2]),
            2 => *rng.pick(&[2. * std::f32::consts::PI, -2. * std::f32::consts::PI, 7.0, -7.0, 100.0, -100.0, 1e6]),
            3 => 0.,
            _ => rng.range(-6.5, 6.5) as f32,
        };
        let (cx, cy) = if r > 0. && r < 5e-4 { (if rng.chance(0.5) { 0. } else { r * 3. }, 0.) } else { (f(&mut rng), f(&mut rng)) };
        st.add("arcs_checked", 1);
        let prefix = rng.below(12);
        // for the chained prefixes the start angle is one that the earlier arc's raw end reproduces exactly
        let start = if prefix >= 10 {
            let s1 = if prefix == 10 { 7.0f32 } else { -9.5 };
            (start - s1) + s1
        } else {
            start
        };
        let start = if prefix >= 10 && (start - (if prefix == 10 { 7.0f32 } else { -9.5 })) + (if prefix == 10 { 7.0f32 } else { -9.5 }) != start { 0.5 } else { start };
        if let Some(v) = check_arc(cx, cy, r, start, sweep, prefix, st) {
            co.viol("C20", v);
        }
        if want || !co.violations.is_empty() {
            co.desc = Some(J::s(&format!("rect({},{},{},{}); arc({},{},{},{},{})", x, y, w, h, cx, cy, r, start, sweep)));
        }
        co
    });
    run_cases(ctx, &mut out, SubSpec { name: "finish_and_transform", cases: ctx.n(300_000, 4_000_000), exhaustive: false, max_secs: secs }, |i, want, st| {
        let mut rng = ctx.rng("finish_and_transform", i);
        let (pb, want_ops) = random_ops(&mut rng);
        let path = pb.finish();
        let mut co = CaseOut::default();
        co.hash = crate::prng::hash_str(&format!("{:?}", want_ops));
        co.nontrivial = want_ops.len() > 3;
        st.add("builders_checked", 1);
        if path.winding != Winding::NonZero {
            co.viol("C20", "finish() did not return NonZero winding".to_string());
        }
        if path.ops.len() != want_ops.len() || !path.ops.iter().zip(want_ops.iter()).all(|(a, b)| same_op(a, b)) {
            co.viol("C20", format!("finish() returned {:?}, the calls were {:?}", path.ops, want_ops));
        }
        let t = match rng.below(6) {
            0 => Transform::identity(),
            1 => Transform::scale(0., 0.),
            2 => Transform::new(rng.range(-3., 3.) as f32, rng.range(-3., 3.) as f32, rng.range(-3., 3.) as f32, rng.range(-3., 3.) as f32, rng.range(-100., 100.) as f32, rng.range(-100., 100.) as f32),
            _ => random_transform(&mut rng, 20., 20.),
        };
        let mut p2 = path.clone();
        p2.winding = if rng.chance(0.5) { Winding::EvenOdd } else { Winding::NonZero };
        let wind = p2.winding;
        let tp = p2.transform(&t);
        st.add("transforms_checked", 1);
        if tp.winding != wind {
            co.viol("C20", "Path::transform changed the winding rule".to_string());
        }
        let m = |p: &Point| t.transform_point(*p);
        let expect: Vec<PathOp> = want_ops
            .iter()
            .map(|o| match o {
                PathOp::MoveTo(p) => PathOp::MoveTo(m(p)),
                PathOp::LineTo(p) => PathOp::LineTo(m(p)),
                PathOp::QuadTo(a, b) => PathOp::QuadTo(m(a), m(b)),
                PathOp::CubicTo(a, b, c) => PathOp::CubicTo(m(a), m(b), m(c)),
                PathOp::Close => PathOp::Close,
            })
            .collect();
        if tp.ops.len() != expect.len() || !tp.ops.iter().zip(expect.iter()).all(|(a, b)| same_op(a, b)) {
            co.viol("C20", format!("Path::transform({}) returned {:?}, expected {:?}", transform_str(&t), tp.ops, expect));
        }
        if want || !co.violations.is_empty() {
            let mut d = J::obj();
            d.set("ops", J::s(&path_str(&path)));
            d.set("transform", J::s(&transform_str(&t)));
            co.desc = Some(d);
        }
        co
    });
    out.assume("start angles are limited to +-100 rad so that f32 trigonometric precision (4 ulp of the start angle is allowed) does not dominate the 1e-3 rad check");
    out
}
