//! C02, C03, C05, C06, C18: the scene monitor (scene.rs) driven by workloads that emphasise
//! each property, plus the property-specific extras (pixel lab, clip order, isolated groups,
//! colour conversions) and the directed regression scenes of the findings.

use crate::gen::*;
use crate::json::J;
use crate::ops::*;
use crate::prng::Rng;
use crate::runner::*;
use crate::scene::*;
use crate::util::*;
use raqote::*;

fn rect_path(x: f32, y: f32, w: f32, h: f32) -> Path {
    let mut pb = PathBuilder::new();
    pb.rect(x, y, w, h);
    pb.finish()
}

fn tri(a: (f32, f32), b: (f32, f32), c: (f32, f32)) -> Path {
    let mut pb = PathBuilder::new();
    pb.move_to(a.0, a.1);
    pb.line_to(b.0, b.1);
    pb.line_to(c.0, c.1);
    pb.close();
    pb.finish()
}

fn o(mode: BlendMode, alpha: f32) -> DrawOptions {
    opts(mode, alpha, true)
}

fn canary_n(seed: u64, n: usize) -> Vec<u32> {
    let mut r = Rng::new(seed, "canary", n as u64);
    canary(&mut r, n)
}

/// the inputs that exposed the findings of DESIGN.md section 5, kept as permanent regression scenes
fn directed_scenes() -> Vec<(&'static str, Scene)> {
    let red = SrcSpec::Solid(0xffff0000);
    let white = SrcSpec::Solid(0xffffffff);
    let mut v: Vec<(&'static str, Scene)> = Vec::new();
    // finding 1: fast-path fill_rect with a non-SrcOver mode spilled over the span
    v.push(("f01 fill_rect Src fast path on 4x3", Scene { w: 4, h: 3, init: vec![0xff102030; 12], ops: vec![Op::FillRect(1., 0., 1., 1., red.clone(), o(BlendMode::Src, 1.))] }));
    for m in [BlendMode::Clear, BlendMode::SrcIn, BlendMode::DstIn, BlendMode::SrcOut, BlendMode::DstAtop, BlendMode::Xor] {
        v.push(("f01 fill_rect erase modes fast path", Scene { w: 5, h: 4, init: canary_n(1, 20), ops: vec![Op::FillRect(1., 1., 2., 2., SrcSpec::Solid(0x80402010), o(m, 1.))] }));
    }
    // finding 2: mask() away from the origin
    v.push(("f02 mask at (1,1)", Scene { w: 4, h: 4, init: vec![0; 16], ops: vec![Op::Mask(white.clone(), 1, 1, 2, 2, vec![255; 4])] }));
    v.push(("f02 mask at (-1,0)", Scene { w: 2, h: 2, init: canary_n(2, 4), ops: vec![Op::Mask(white.clone(), -1, 0, 2, 2, vec![255, 128, 64, 32])] }));
    v.push(("f02 mask partly beyond the bottom right", Scene { w: 3, h: 3, init: canary_n(3, 9), ops: vec![Op::Mask(red.clone(), 2, 1, 3, 4, (0..12).map(|i| (i * 21) as u8).collect())] }));
    // finding 3: alpha above 1
    v.push(("f03 alpha 1.5", Scene { w: 3, h: 3, init: canary_n(4, 9), ops: vec![Op::Fill(rect_path(0., 0., 2., 2.), SrcSpec::Solid(0x80402010), o(BlendMode::SrcOver, 1.5))] }));
    // finding 4: clip rect pushed after a clip path
    v.push((
        "f04 push_clip then push_clip_rect",
        Scene { w: 4, h: 4, init: vec![0; 16], ops: vec![Op::PushClip(rect_path(0., 0., 2., 2.)), Op::PushClipRect(0, 0, 4, 4), Op::Fill(rect_path(0., 0., 4., 4.), white.clone(), o(BlendMode::SrcOver, 1.)), Op::PopClip, Op::PopClip] },
    ));
    // finding 9: layer under an empty clip
    v.push((
        "f09 layer under disjoint clip rects",
        Scene { w: 6, h: 3, init: canary_n(5, 18), ops: vec![Op::PushClipRect(0, 0, 2, 2), Op::PushClipRect(3, 0, 5, 2), Op::PushLayer(0.5, BlendMode::SrcOver), Op::Fill(rect_path(0., 0., 6., 3.), red.clone(), o(BlendMode::SrcOver, 1.)), Op::PopLayer, Op::PopClip, Op::PopClip] },
    ));
    v.push((
        "f09 layer under an inverted clip rect",
        Scene { w: 4, h: 4, init: canary_n(6, 16), ops: vec![Op::PushClipRect(3, 3, 1, 1), Op::PushLayer(1.0, BlendMode::Multiply), Op::Clear(0xffffffff), Op::PopLayer, Op::PopClip] },
    ));
    // finding 10: clip larger than the surface, layer, mask
    v.push((
        "f10 oversized clip, layer, mask",
        Scene { w: 4, h: 4, init: canary_n(7, 16), ops: vec![Op::PushClipRect(0, 0, 100, 100), Op::PushLayer(0.5, BlendMode::SrcOver), Op::Mask(white.clone(), 0, 0, 50, 50, vec![200; 2500]), Op::PopLayer, Op::PopClip] },
    ));
    // finding 11: clear inside a layer
    v.push(("f11 clear inside a layer", Scene { w: 3, h: 3, init: canary_n(8, 9), ops: vec![Op::PushLayer(0.5, BlendMode::SrcOver), Op::Clear(0xffffffff), Op::PopLayer] }));
    v.push(("f11 clear inside a nested layer", Scene { w: 3, h: 3, init: canary_n(9, 9), ops: vec![Op::PushLayer(1.0, BlendMode::SrcOver), Op::PushLayer(0.3, BlendMode::Xor), Op::Clear(0x80800000), Op::PopLayer, Op::PopLayer] }));
    // a layer that outlives the clip it was pushed under, then a clip of the same size elsewhere
    v.push((
        "clear in a layer under a clip of the layer's size elsewhere",
        Scene { w: 12, h: 12, init: canary_n(15, 144), ops: vec![Op::PushClipRect(2, 2, 8, 8), Op::PushLayer(1.0, BlendMode::SrcOver), Op::PopClip, Op::PushClipRect(5, 5, 11, 11), Op::Clear(0xff0000ff), Op::PopClip, Op::PopLayer] },
    ));
    // finding 15: full coverage under a covering clip path is exact
    v.push(("f15 clear under a covering clip path", Scene { w: 4, h: 4, init: canary_n(10, 16), ops: vec![Op::PushClip(rect_path(0., 0., 4., 4.)), Op::Clear(0xffffffff), Op::PopClip] }));
    v.push((
        "f15 Src fill under a covering clip path",
        Scene { w: 4, h: 4, init: canary_n(11, 16), ops: vec![Op::PushClip(rect_path(-1., -1., 6., 6.)), Op::Fill(rect_path(0., 0., 4., 4.), SrcSpec::Solid(0xc0204060), o(BlendMode::Src, 1.)), Op::PopClip] },
    ));
    // finding 16: gradient with global alpha
    v.push((
        "f16 white gradient alpha 0.5",
        Scene {
            w: 4,
            h: 2,
            init: vec![0; 8],
            ops: vec![Op::Fill(
                rect_path(0., 0., 4., 2.),
                SrcSpec::Linear { stops: vec![Stop { pos: 0., argb: [255, 255, 255, 255] }, Stop { pos: 1., argb: [255, 255, 255, 255] }], start: (0., 0.), end: (4., 0.), spread: 0 },
                o(BlendMode::Src, 0.5),
            )],
        },
    ));
    // finding 21: zero coverage pixels inside the bounding box, non-SrcOver
    for m in [BlendMode::DstAtop, BlendMode::SrcIn, BlendMode::Clear, BlendMode::Multiply, BlendMode::Darken] {
        v.push(("f21 triangle with an erase/darkening mode", Scene { w: 8, h: 8, init: canary_n(12, 64), ops: vec![Op::Fill(tri((1., 1.), (7., 2.), (2., 7.)), SrcSpec::Solid(0x40201008), o(m, 1.))] }));
        v.push((
            "f21 triangle under a clip path",
            Scene { w: 8, h: 8, init: canary_n(13, 64), ops: vec![Op::PushClip(tri((0., 0.), (8., 0.), (0., 8.))), Op::Fill(tri((1., 1.), (7., 2.), (2., 7.)), SrcSpec::Solid(0x40201008), o(m, 1.)), Op::PopClip] },
        ));
    }
    // finding 18 (known, sw-composite): the Color formula returns a pixel with g > a
    v.push(("f18 Color blend of 0x8000807e over 0x01010100", Scene { w: 2, h: 1, init: vec![0x01010100; 2], ops: vec![Op::FillRect(0., 0., 2., 1., SrcSpec::Solid(0x8000807e), o(BlendMode::Color, 1.))] }));
    // finding 14: negative rectangle sizes
    v.push(("f14 fill_rect with negative width", Scene { w: 4, h: 2, init: canary_n(14, 8), ops: vec![Op::FillRect(2., 0., -2., 1., red.clone(), o(BlendMode::SrcOver, 1.))] }));
    v
}

fn sub_directed(ctx: &Ctx, out: &mut Outcome) {
    let d = directed_scenes();
    run_cases(ctx, out, SubSpec { name: "directed", cases: d.len() as u64, exhaustive: false, max_secs: 120. }, |i, want, st| {
        let mut co = run_scene(&d[i as usize].1, st, &ctx.known, MonitorOpts::default(), want);
        if let Some(J::Obj(_)) = &co.desc {
            let mut dsc = co.desc.take().unwrap();
            dsc.set("directed", J::s(d[i as usize].0));
            co.desc = Some(dsc);
        }
        co
    });
}

fn sub_general(ctx: &Ctx, out: &mut Outcome, name: &str, prof: SceneProfile, n: u64, secs: f64) {
    run_cases(ctx, out, SubSpec { name, cases: n, exhaustive: false, max_secs: secs }, |i, want, st| {
        let mut rng = ctx.rng(name, i);
        let scene = gen_scene(&mut rng, &prof);
        run_scene(&scene, st, &ctx.known, MonitorOpts::default(), want)
    });
}

/// templated layer scenes: the combinations of clip and layer pushes and pops that random nesting seldom
/// produces (a layer outliving the clip it was pushed under, followed by a clip rectangle of the same size
/// somewhere else and calls that take whole-buffer shortcuts), and layers on surfaces of more than 65536
/// pixels with content in the last rows and columns
fn sub_layer_scenarios(ctx: &Ctx, out: &mut Outcome, n: u64, secs: f64) {
    run_cases(ctx, out, SubSpec { name: "layer_scenarios", cases: n, exhaustive: false, max_secs: secs }, |i, want, st| {
        let mut rng = ctx.rng("layer_scenarios", i);
        // layers nested a dozen deep with opacities just below 1 (a per-level rounding slip adds up)
        if i % 50 == 21 {
            let (w, h) = (rng.int(4, 10) as i32, rng.int(4, 10) as i32);
            let n = (w * h) as usize;
            let init = if rng.chance(0.5) { vec![0; n] } else { canary(&mut rng, n) };
            let depth = rng.int(6, 14) as usize;
            let mut ops: Vec<Op> = Vec::new();
            let clip = rng.chance(0.5);
            if clip {
                ops.push(Op::PushClipRect(0, 0, w - rng.int(0, 1) as i32, h));
            }
            for _ in 0..depth {
                ops.push(Op::PushLayer(*rng.pick(&[0.99f32, 0.98, 0.995, 0.9, 254. / 255.]), if rng.chance(0.85) { BlendMode::SrcOver } else { random_mode(&mut rng) }));
            }
            ops.push(Op::Fill(small_shape(&mut rng, w, h), SrcSpec::Solid(premul_pixel(&mut rng)), o(BlendMode::SrcOver, 1.)));
            ops.push(Op::FillRect(1., 1., w as f32 - 2., h as f32 - 2., SrcSpec::Solid(premul_pixel(&mut rng) | 0xff000000), o(BlendMode::SrcOver, random_alpha(&mut rng))));
            for _ in 0..depth {
                ops.push(Op::PopLayer);
            }
            if clip {
                ops.push(Op::PopClip);
            }
            st.add("scenarios_with_layers_nested_a_dozen_deep", 1);
            let scene = Scene { w, h, init, ops };
            return run_scene(&scene, st, &ctx.known, MonitorOpts::default(), want);
        }
        // one group right after another of the same size somewhere else (and a third where the first was): a layer
        // starts transparent whatever the layer before it held
        if i % 25 == 13 {
            let (w, h) = (rng.int(8, 20) as i32, rng.int(8, 20) as i32);
            let n = (w * h) as usize;
            let init = if rng.chance(0.3) { vec![0; n] } else { canary(&mut rng, n) };
            let (aw, ah) = (rng.int(2, w as i64 - 3) as i32, rng.int(2, h as i64 - 3) as i32);
            let mut ops: Vec<Op> = Vec::new();
            let mut at = (rng.int(0, (w - aw) as i64) as i32, rng.int(0, (h - ah) as i64) as i32);
            let first = at;
            for round in 0..rng.int(2, 4) {
                ops.push(Op::PushClipRect(at.0, at.1, at.0 + aw, at.1 + ah));
                ops.push(Op::PushLayer(*rng.pick(&[1.0f32, 0.5, 0.75]), if rng.chance(0.6) { BlendMode::SrcOver } else { random_mode(&mut rng) }));
                // something in a corner of the layer, or all over it, or nothing at all
                match rng.below(4) {
                    0 => {}
                    1 => ops.push(Op::FillRect(at.0 as f32, at.1 as f32, aw as f32, ah as f32, SrcSpec::Solid(premul_pixel(&mut rng) | 0xff000000), o(BlendMode::SrcOver, 1.))),
                    2 => ops.push(Op::FillRect(at.0 as f32 + rng.int(0, aw as i64 - 1) as f32, at.1 as f32 + rng.int(0, ah as i64 - 1) as f32, 1.5, 1.5, SrcSpec::Solid(premul_pixel(&mut rng)), o(BlendMode::SrcOver, 1.))),
                    _ => ops.push(Op::Fill(small_shape(&mut rng, w, h), SrcSpec::Solid(premul_pixel(&mut rng)), o(random_mode(&mut rng), random_alpha(&mut rng)))),
                }
                ops.push(Op::PopLayer);
                ops.push(Op::PopClip);
                at = if round == 1 && rng.chance(0.5) {
                    first
                } else if rng.chance(0.5) {
                    ((at.0 + rng.int(-1, 1) as i32).clamp(0, w - aw), (at.1 + rng.int(-1, 1) as i32).clamp(0, h - ah))
                } else {
                    (rng.int(0, (w - aw) as i64) as i32, rng.int(0, (h - ah) as i64) as i32)
                };
            }
            st.add("scenarios_with_equal_sized_groups_one_after_another", 1);
            let scene = Scene { w, h, init, ops };
            return run_scene(&scene, st, &ctx.known, MonitorOpts::default(), want);
        }
        let large = i % 400 == 7;
        // (one surface of more than 2^20 pixels per run)
        let very_large = i % 2000 == 407;
        let (w, h) = if very_large {
            (rng.int(1024, 1150) as i32, rng.int(1000, 1100) as i32)
        } else if large {
            (rng.int(257, 420) as i32, rng.int(257, 340) as i32)
        } else {
            (rng.int(4, 14) as i32, rng.int(4, 14) as i32)
        };
        let n = (w * h) as usize;
        let init = if rng.chance(0.2) { vec![0; n] } else { canary(&mut rng, n) };
        let prof = SceneProfile { max_size: 12, clips: 0.3, layers: 0.3, transforms: 0.2, solid_weight: 8, ops: (1, 3) };
        let mut ops: Vec<Op> = Vec::new();
        let solid = |rng: &mut Rng| SrcSpec::Solid(premul_pixel(rng));
        // whole-buffer calls: the ones an implementation is tempted to special-case
        let whole = |rng: &mut Rng, w: i32, h: i32| -> Op {
            match rng.below(4) {
                0 => Op::Clear(premul_pixel(rng)),
                1 => Op::FillRect(0., 0., w as f32, h as f32, SrcSpec::Solid(premul_pixel(rng) | 0xff000000), o(BlendMode::Src, 1.)),
                2 => Op::FillRect(-1., -1., w as f32 + 2., h as f32 + 2., SrcSpec::Solid(premul_pixel(rng)), o(random_mode(rng), 1.)),
                _ => Op::Fill(rect_path(0., 0., w as f32, h as f32), SrcSpec::Solid(premul_pixel(rng)), o(random_mode(rng), random_alpha(rng))),
            }
        };
        // the same with sources whose colour depends on where the pixel is (a gradient or image shaded with
        // coordinates relative to the wrong origin shows)
        let whole_shaded = |rng: &mut Rng, w: i32, h: i32| -> Op {
            let src = random_source(rng, w, h, 0);
            match rng.below(3) {
                0 => Op::FillRect(0., 0., w as f32, h as f32, src, o(BlendMode::Src, 1.)),
                1 => Op::FillRect(rng.int(0, 2) as f32, rng.int(0, 2) as f32, w as f32, h as f32, src, o(random_mode(rng), 1.)),
                _ => {
                    let img = Img { w: w.min(24), h: h.min(24), data: random_image_data(rng, w.min(24), h.min(24)) };
                    Op::DrawImageAt(0., 0., img, o(BlendMode::Src, 1.))
                }
            }
        };
        if large {
            st.add("scenarios_on_surfaces_over_65536_pixels", 1);
            if rng.chance(0.4) {
                let (x0, y0) = (rng.int(0, 40) as i32, rng.int(0, 40) as i32);
                ops.push(Op::PushClipRect(x0, y0, w - rng.int(0, 30) as i32, h - rng.int(0, 3) as i32));
            }
            let opacity = *rng.pick(&[0.5f32, 1.0, 0.25]);
            ops.push(Op::PushLayer(opacity, if rng.chance(0.6) { BlendMode::SrcOver } else { random_mode(&mut rng) }));
            // content in the last rows and columns, and somewhere in the middle
            let hh = rng.int(1, 60) as f32;
            ops.push(Op::FillRect(rng.int(0, w as i64 / 2) as f32, h as f32 - hh, w as f32, hh, solid(&mut rng), o(BlendMode::SrcOver, 1.)));
            ops.push(Op::Fill(small_shape(&mut rng, w, h), solid(&mut rng), o(random_mode(&mut rng), random_alpha(&mut rng))));
            if rng.chance(0.3) {
                ops.push(Op::PushLayer(0.75, BlendMode::SrcOver));
                ops.push(Op::FillRect(w as f32 - 9., 3., 20., h as f32, solid(&mut rng), o(BlendMode::SrcOver, 1.)));
                ops.push(Op::PopLayer);
            }
            ops.push(Op::PopLayer);
            if ops.iter().filter(|o| matches!(o, Op::PushClipRect(..))).count() > 0 {
                ops.push(Op::PopClip);
            }
        } else {
            st.add("scenarios_with_a_layer_outliving_its_clip", 1);
            // clip A strictly inside the surface, with room to move it
            let aw = rng.int(1, w as i64 - 2) as i32;
            let ah = rng.int(1, h as i64 - 2) as i32;
            let ax = rng.int(0, (w - aw) as i64) as i32;
            let ay = rng.int(0, (h - ah) as i64) as i32;
            if rng.chance(0.3) {
                ops.push(Op::Fill(small_shape(&mut rng, w, h), solid(&mut rng), o(BlendMode::SrcOver, 1.)));
            }
            let outer_clip = rng.chance(0.2);
            if outer_clip {
                ops.push(gen_scene_clip(&mut rng, w, h));
            }
            ops.push(Op::PushClipRect(ax, ay, ax + aw, ay + ah));
            let opacity = *rng.pick(&[0.0f32, 0.3, 0.5, 1.0, 1.0, 0.75]);
            ops.push(Op::PushLayer(opacity, if rng.chance(0.5) { BlendMode::SrcOver } else { random_mode(&mut rng) }));
            let nested = rng.chance(0.25);
            if nested {
                ops.push(Op::PushLayer(*rng.pick(&[0.5f32, 1.0]), random_mode(&mut rng)));
            }
            if rng.chance(0.6) {
                ops.push(Op::Fill(small_shape(&mut rng, w, h), solid(&mut rng), o(BlendMode::SrcOver, 1.)));
            }
            ops.push(Op::PopClip); // A goes while its layer stays open
            // clip B: the same size elsewhere (mostly), or any other rectangle
            let (bx, by) = if rng.chance(0.8) { (rng.int(0, (w - aw) as i64) as i32, rng.int(0, (h - ah) as i64) as i32) } else { (ax + rng.int(-3, 3) as i32, ay + rng.int(-3, 3) as i32) };
            let (bw, bh) = if rng.chance(0.8) { (aw, ah) } else { (rng.int(1, w as i64) as i32, rng.int(1, h as i64) as i32) };
            // sometimes without B: no clip at all while the layer is open (the unclipped fast paths, on a
            // buffer that is not the surface and does not start at the origin)
            let has_b = !(rng.chance(0.3) && !outer_clip);
            if has_b {
                // B is a rectangle, or a clip path that reaches beyond the layer's rectangle
                if rng.chance(0.7) {
                    ops.push(Op::PushClipRect(bx, by, bx + bw, by + bh));
                } else {
                    ops.push(Op::PushClip(if rng.chance(0.5) { rect_path(bx as f32 - 1.5, by as f32 - 0.5, bw as f32 + 3., bh as f32 + 2.) } else { random_path(&mut rng, w, h, false) }));
                }
            } else {
                ops.push(Op::SetTransform(Transform::identity()));
            }
            ops.push(if rng.chance(0.4) { whole_shaded(&mut rng, w, h) } else { whole(&mut rng, w, h) });
            if rng.chance(0.5) {
                let g = gen_scene(&mut rng, &prof);
                if g.w <= w && g.h <= h {
                    ops.extend(g.ops);
                }
            }
            if rng.chance(0.3) {
                ops.push(whole(&mut rng, w, h));
            }
            // pops in either order
            if !has_b {
                if nested { ops.push(Op::PopLayer); }
                ops.push(Op::PopLayer);
            } else if rng.chance(0.5) {
                ops.push(Op::PopClip);
                if nested { ops.push(Op::PopLayer); }
                ops.push(Op::PopLayer);
            } else {
                if nested { ops.push(Op::PopLayer); }
                ops.push(Op::PopLayer);
                // B is still in force, now on the surface: only B (and whatever lies below it) limits this
                if rng.chance(0.7) {
                    ops.push(whole(&mut rng, w, h));
                }
                ops.push(Op::PopClip);
            }
            if outer_clip {
                ops.push(Op::PopClip);
            }
        }
        let scene = Scene { w, h, init, ops };
        run_scene(&scene, st, &ctx.known, MonitorOpts::default(), want)
    });
}

/// mask() with every coverage byte at once, at arbitrary offsets, optionally under clips
fn sub_mask_lab(ctx: &Ctx, out: &mut Outcome, n: u64, secs: f64) {
    run_cases(ctx, out, SubSpec { name: "mask_lab", cases: n, exhaustive: false, max_secs: secs }, |i, want, st| {
        let mut rng = ctx.rng("mask_lab", i);
        let w = rng.int(4, 20) as i32;
        let h = rng.int(4, 20) as i32;
        let n = (w * h) as usize;
        let init = if rng.chance(0.5) { patchwork(&mut rng, w as usize, h as usize) } else { canary(&mut rng, n) };
        let mut bytes: Vec<u8> = (0..=255u32).map(|b| b as u8).collect();
        // shuffle
        for k in (1..bytes.len()).rev() {
            let j = rng.below(k as u64 + 1) as usize;
            bytes.swap(k, j);
        }
        let src = if rng.chance(0.5) { SrcSpec::Solid(premul_pixel(&mut rng)) } else { random_source(&mut rng, w, h, 0) };
        let mut ops = Vec::new();
        let clip = rng.below(4);
        if clip == 1 {
            ops.push(Op::PushClipRect(rng.int(0, 3) as i32, rng.int(0, 3) as i32, w - rng.int(0, 3) as i32, h - rng.int(0, 3) as i32));
        } else if clip == 2 {
            ops.push(Op::PushClip(tri((0., 0.), (w as f32, 1.), (2., h as f32))));
        }
        if rng.chance(0.3) {
            ops.push(Op::SetTransform(random_transform(&mut rng, w as f64, h as f64)));
        }
        ops.push(Op::Mask(src, rng.int(-8, w as i64 - 4) as i32, rng.int(-8, h as i64 - 4) as i32, 16, 16, bytes));
        if clip == 1 || clip == 2 {
            ops.push(Op::PopClip);
        }
        run_scene(&Scene { w, h, init, ops }, st, &ctx.known, MonitorOpts::default(), want)
    });
}

/// every opacity byte x every blend mode x clip variant through push_layer_with_blend: coverage
/// 0..255 for all 28 formulas (finite space, enumerated completely)
fn sub_opacity_lab(ctx: &Ctx, out: &mut Outcome) {
    let total = 256 * 28 * 3;
    run_cases(ctx, out, SubSpec { name: "opacity_x_mode_x_clip", cases: total, exhaustive: true, max_secs: 600. }, |i, want, st| {
        let ob = (i % 256) as u32;
        let mode = MODES[((i / 256) % 28) as usize].0;
        let variant = i / (256 * 28);
        let mut rng = Rng::new(7, "opacity_lab", i);
        let (w, h) = (7, 6);
        let init = if i % 2 == 0 { canary(&mut rng, 42) } else { patchwork(&mut rng, 7, 6) };
        let img = Img { w: 7, h: 6, data: if i % 3 == 0 { patchwork(&mut rng, 7, 6) } else { canary(&mut rng, 42) } };
        let mut ops = Vec::new();
        match variant {
            1 => ops.push(Op::PushClipRect(1, 1, 6, 5)),
            2 => ops.push(Op::PushClip(tri((0., 0.), (7., 0.5), (1., 6.)))),
            _ => {}
        }
        ops.push(Op::PushLayer(ob as f32 / 255., mode));
        ops.push(Op::DrawImageAt(0., 0., img, o(BlendMode::Src, 1.)));
        ops.push(Op::PopLayer);
        if variant != 0 {
            ops.push(Op::PopClip);
        }
        run_scene(&Scene { w, h, init, ops }, st, &ctx.known, MonitorOpts::default(), want)
    });
}

/// C05: the same rectangles (and the same paths) pushed in different orders clip identically
fn sub_clip_order(ctx: &Ctx, out: &mut Outcome, n: u64, secs: f64) {
    run_cases(ctx, out, SubSpec { name: "clip_push_order", cases: n, exhaustive: false, max_secs: secs }, |i, want, st| {
        let mut rng = ctx.rng("clip_push_order", i);
        let w = rng.int(2, 12) as i32;
        let h = rng.int(2, 12) as i32;
        let nr = rng.int(1, 3) as usize;
        let np = rng.int(0, 2) as usize;
        let mut clips: Vec<Op> = Vec::new();
        for _ in 0..nr {
            let (x0, y0) = (rng.int(-2, w as i64 - 1) as i32, rng.int(-2, h as i64 - 1) as i32);
            clips.push(Op::PushClipRect(x0, y0, x0 + rng.int(1, w as i64 + 2) as i32, y0 + rng.int(1, h as i64 + 2) as i32));
        }
        for _ in 0..np {
            clips.push(Op::PushClip(if rng.chance(0.5) { small_shape(&mut rng, w, h) } else { random_path(&mut rng, w, h, false) }));
        }
        // a second order: random permutation
        let mut perm: Vec<usize> = (0..clips.len()).collect();
        for k in (1..perm.len()).rev() {
            let j = rng.below(k as u64 + 1) as usize;
            perm.swap(k, j);
        }
        let eff_of = |order: &[usize]| -> Vec<u8> {
            let mut dt = DrawTarget::new(w, h);
            for k in order {
                clips[*k].apply(&mut dt);
            }
            effective_clip(&mut dt, w, h)
        };
        let ident: Vec<usize> = (0..clips.len()).collect();
        let a = eff_of(&ident);
        let b = eff_of(&perm);
        let mut co = CaseOut::default();
        co.hash = crate::prng::hash_str(&format!("{:?}{:?}", clips, perm));
        co.nontrivial = perm != ident && a.iter().any(|v| *v != 0) && a.iter().any(|v| *v != 255);
        st.add("clip_orders_compared", 1);
        // exact for rectangles; with two or more paths the products are rounded in a different order
        let tol: i32 = if np >= 2 { 1 } else { 0 };
        for k in 0..a.len() {
            if (a[k] as i32 - b[k] as i32).abs() > tol {
                co.viol("C05", format!("effective clip at ({},{}) is {} for push order {:?} but {} for order {:?}", k as i32 % w, k as i32 / w, a[k], ident, b[k], perm));
                break;
            }
        }
        if want || !co.violations.is_empty() {
            let mut d = J::obj();
            d.set("surface", J::s(&format!("{}x{}", w, h)));
            d.set("clips", ops_json(&clips));
            d.set("second_order", J::s(&format!("{:?}", perm)));
            co.desc = Some(d);
        }
        co
    });
}

/// C06 end to end through the public API only: a group rendered on a separate transparent
/// surface and composited once must equal the same group drawn inside a layer.
fn sub_isolated_group(ctx: &Ctx, out: &mut Outcome, n: u64, secs: f64) {
    run_cases(ctx, out, SubSpec { name: "isolated_group_reference", cases: n, exhaustive: false, max_secs: secs }, |i, want, st| {
        let mut rng = ctx.rng("isolated_group_reference", i);
        let w = rng.int(2, 12) as i32;
        let h = rng.int(2, 12) as i32;
        let n = (w * h) as usize;
        let init = if rng.chance(0.2) { vec![0; n] } else { canary(&mut rng, n) };
        let prof = SceneProfile { max_size: 12, clips: 0.6, layers: 0.3, transforms: 0.4, solid_weight: 5, ops: (1, 5) };
        // state before the layer: clips and a transform (well nested: they stay until after the pop)
        let mut state_ops: Vec<Op> = Vec::new();
        let nclips = rng.below(3);
        for _ in 0..nclips {
            if rng.chance(0.3) {
                state_ops.push(Op::SetTransform(random_transform(&mut rng, w as f64, h as f64)));
            }
            let c = gen_scene_clip(&mut rng, w, h);
            state_ops.push(c);
        }
        if rng.chance(0.5) {
            state_ops.push(Op::SetTransform(random_transform(&mut rng, w as f64, h as f64)));
        }
        let opacity = *rng.pick(&[0.0f32, 1. / 255., 0.25, 0.5, 0.75, 1.0, 1.0, 2.0, -1.0]);
        let mode = random_mode(&mut rng);
        // the group: a small well-nested scene (may contain nested layers, clips, transforms)
        let mut g = gen_scene(&mut rng, &prof);
        // overlapping shapes that share the opacity
        g.ops.insert(0, Op::Fill(small_shape(&mut rng, w, h), SrcSpec::Solid(premul_pixel(&mut rng)), o(BlendMode::SrcOver, 1.)));
        let group_ops = g.ops;

        // real: everything on one target
        let mut real = DrawTarget::from_vec(w, h, init.clone());
        for op in &state_ops {
            op.apply(&mut real);
        }
        let ctm_at_push = *real.get_transform();
        Op::PushLayer(opacity, mode).apply(&mut real);
        for op in &group_ops {
            op.apply(&mut real);
        }
        Op::PopLayer.apply(&mut real);
        let ctm_after = *real.get_transform();

        // reference: the group on its own transparent surface with the same transform and clip
        let mut gs = DrawTarget::new(w, h);
        for op in &state_ops {
            op.apply(&mut gs);
        }
        for op in &group_ops {
            op.apply(&mut gs);
        }
        // the clip in force at the pop (== at the push): observed on a third target
        let mut ct = DrawTarget::new(w, h);
        for op in &state_ops {
            op.apply(&mut ct);
        }
        let eff = effective_clip(&mut ct, w, h);
        let ob = opacity_byte(opacity);
        let gp = gs.get_data();
        let rp = real.get_data();
        let mut co = CaseOut::default();
        co.hash = crate::prng::hash_str(&format!("{:?}{:?}{:?}{}{:?}", init, state_ops, group_ops, opacity, mode));
        let mut changed = 0;
        let mut same = 0;
        // the last transform set inside the group persists (push/pop leave it as they found it)
        let mut expect_ctm = ctm_at_push;
        let mut depth = 0;
        for op in &group_ops {
            match op {
                Op::PushLayer(..) => depth += 1,
                Op::PopLayer => depth -= 1,
                Op::SetTransform(t) => expect_ctm = *t,
                _ => {}
            }
        }
        let _ = depth;
        if !bitwise_eq(&ctm_after, &expect_ctm) {
            co.viol("C06", "the transform after pop_layer is not the one that was set last".to_string());
        }
        for y in 0..h {
            for x in 0..w {
                let k = (y * w + x) as usize;
                let (d, s, cm, got) = (init_after_state(&init, k), gp[k], eff[k] as u32, rp[k]);
                if got != d {
                    changed += 1
                } else {
                    same += 1
                }
                let e = expect_pixel(s, d, ob, cm, mode);
                if let Some(ex) = e.exact {
                    st.add("group_px_exact_asserted", 1);
                    if got != ex {
                        co.viol("C06", format!("pixel ({},{}) = {} but compositing the isolated group pixel {} once (opacity byte {}, clip {}, mode {}) over {} gives exactly {}", x, y, hex(got), hex(s), ob, cm, mode_name(mode), hex(d), hex(ex)));
                        break;
                    }
                } else {
                    let dev = deviation(got, &e.ideal);
                    st.add("group_px_tolerance_asserted", 1);
                    st.max("max_group_deviation_lsb", dev);
                    if dev > TAU {
                        co.viol("C06", format!("pixel ({},{}) = {} deviates {:.2} LSB from compositing the isolated group pixel {} once (opacity byte {}, clip {}, mode {}) over {}", x, y, hex(got), dev, hex(s), ob, cm, mode_name(mode), hex(d)));
                        break;
                    }
                }
            }
            if !co.violations.is_empty() {
                break;
            }
        }
        co.nontrivial = changed > 0 && same > 0;
        if want || !co.violations.is_empty() {
            let mut d = J::obj();
            d.set("surface", J::s(&format!("{}x{}", w, h)));
            d.set("initial_pixels", pixels_json(&init));
            d.set("state_before_layer", ops_json(&state_ops));
            d.set("layer", J::s(&format!("opacity {} blend {}", fmt_f(opacity), mode_name(mode))));
            d.set("group", ops_json(&group_ops));
            co.desc = Some(d);
        }
        co
    });
}

fn init_after_state(init: &[u32], k: usize) -> u32 {
    // the state ops (clips, transforms) draw nothing: the destination is the initial surface
    init[k]
}

fn gen_scene_clip(rng: &mut Rng, w: i32, h: i32) -> Op {
    if rng.chance(0.5) {
        let (x0, y0) = (rng.int(-2, w as i64 - 1) as i32, rng.int(-2, h as i64 - 1) as i32);
        if rng.chance(0.1) {
            Op::PushClipRect(x0, y0, x0 - 1, y0 + 3)
        } else {
            Op::PushClipRect(x0, y0, x0 + rng.int(1, w as i64 + 2) as i32, y0 + rng.int(1, h as i64 + 2) as i32)
        }
    } else {
        Op::PushClip(if rng.chance(0.5) { small_shape(rng, w, h) } else { random_path(rng, w, h, false) })
    }
}

/// C18: Color -> SolidSource and from_unpremultiplied_argb over all (alpha, channel) pairs
fn sub_color_conversions(ctx: &Ctx, out: &mut Outcome) {
    run_cases(ctx, out, SubSpec { name: "color_conversions_all_alpha_channel_pairs", cases: 65536, exhaustive: true, max_secs: 120. }, |i, want, st| {
        let a = (i / 256) as u8;
        let c = (i % 256) as u8;
        let mut co = CaseOut::default();
        co.hash = i;
        co.nontrivial = true;
        let s1 = SolidSource::from_unpremultiplied_argb(a, c, 255 - c, c / 2);
        let s2: SolidSource = Color::new(a, c, 255, 0).into();
        let src: Source = Color::new(a, 255, c, 1).into();
        let s3 = if let Source::Solid(s) = src { s } else { unreachable!() };
        for (k, s) in [s1, s2, s3].iter().enumerate() {
            st.add("conversions_asserted", 1);
            let ideal = |v: u8| (v as f64 * a as f64 / 255.).round();
            let want_rgb = match k {
                0 => [ideal(c), ideal(255 - c), ideal(c / 2)],
                1 => [ideal(c), ideal(255), ideal(0)],
                _ => [ideal(255), ideal(c), ideal(1)],
            };
            if s.r > s.a || s.g > s.a || s.b > s.a || s.a != a {
                co.viol("C18", format!("conversion #{} of alpha {} channel {} gives a={} r={} g={} b={}", k, a, c, s.a, s.r, s.g, s.b));
            }
            if (s.r as f64 - want_rgb[0]).abs() > 1. || (s.g as f64 - want_rgb[1]).abs() > 1. || (s.b as f64 - want_rgb[2]).abs() > 1. {
                co.viol("C18", format!("conversion #{} of alpha {} channel {} gives r={} g={} b={}, expected about {:?}", k, a, c, s.r, s.g, s.b, want_rgb));
            }
            if pack(s.a as u32, s.r as u32, s.g as u32, s.b as u32) != s.to_u32() {
                co.viol("C18", "to_u32 does not pack a,r,g,b".to_string());
            }
        }
        if want {
            co.desc = Some(J::s(&format!("from_unpremultiplied_argb({}, {}, {}, {}) = {:?}", a, c, 255 - c, c / 2, s1)));
        }
        co
    });
}

/// C18/C03: the formula of record itself on random valid pixel pairs, every mode (which pixels can a
/// full-coverage draw produce at all)
fn sub_formula_validity(ctx: &Ctx, out: &mut Outcome, n: u64) {
    run_cases(ctx, out, SubSpec { name: "formula_of_record_validity", cases: n, exhaustive: false, max_secs: 120. }, |i, want, st| {
        let mut rng = ctx.rng("formula_of_record_validity", i);
        let mut co = CaseOut::default();
        co.hash = i;
        co.nontrivial = true;
        let s = premul_pixel(&mut rng);
        let d = premul_pixel(&mut rng);
        for (mode, name) in MODES.iter() {
            let b = blend_of_record(*mode)(s, d);
            st.add("formula_outputs_checked", 1);
            if !valid_premul(b) {
                if *mode == BlendMode::Color && ctx.known.active("C18", "sw-composite-color-blend-invalid") {
                    co.known.push(("C18:sw-composite-color-blend-invalid".to_string(), format!("Color::blend({}, {}) = {}", hex(s), hex(d), hex(b))));
                } else {
                    co.viol("C18", format!("{}::blend({}, {}) = {} is not a valid premultiplied pixel", name, hex(s), hex(d), hex(b)));
                }
            }
        }
        if want {
            co.desc = Some(J::s(&format!("s={} d={} through all 28 formulas", hex(s), hex(d))));
        }
        co
    });
}

/// copy_surface / blend_surface / blend_surface_with_alpha between surfaces of valid pixels: every alpha
/// byte, every mode; the destination stays valid
fn sub_surface_blits_validity(ctx: &Ctx, out: &mut Outcome, n: u64) {
    run_cases(ctx, out, SubSpec { name: "surface_blits_keep_pixels_valid", cases: n, exhaustive: false, max_secs: 120. }, |i, want, st| {
        let mut rng = ctx.rng("surface_blits_keep_pixels_valid", i);
        let (w, h) = (rng.int(1, 10) as i32, rng.int(1, 6) as i32);
        let n = (w * h) as usize;
        // opaque, translucent and transparent pixels on both sides
        let px = |rng: &mut Rng| match rng.below(4) { 0 => premul_pixel(rng) | 0xff000000, 1 => 0, _ => premul_pixel(rng) };
        let fix = |p: u32| { let c = ch(p); let a = c[0]; pack(a as u32, c[1].min(a) as u32, c[2].min(a) as u32, c[3].min(a) as u32) };
        let src_px: Vec<u32> = (0..n).map(|_| fix(px(&mut rng))).collect();
        let dst_px: Vec<u32> = (0..n).map(|_| fix(px(&mut rng))).collect();
        let src = DrawTarget::from_vec(w, h, src_px.clone());
        let mut dst = DrawTarget::from_vec(w, h, dst_px.clone());
        let r = IntRect::new(IntPoint::new(0, 0), IntPoint::new(w, h));
        let at = IntPoint::new(rng.int(-1, 1) as i32, rng.int(-1, 1) as i32);
        // every alpha byte in turn, and values outside [0,1]
        let byte = i % 260;
        let alpha = if byte < 256 { (byte as f32) / 255. } else { [1.5f32, -0.5, f32::INFINITY, 255. / 256.][(byte - 256) as usize] };
        let mode = random_mode(&mut rng);
        let which = i / 260 % 3;
        match which {
            0 => dst.blend_surface_with_alpha(&src, r, at, alpha),
            1 => dst.blend_surface(&src, r, at, mode),
            _ => dst.copy_surface(&src, r, at),
        }
        let mut co = CaseOut::default();
        co.hash = crate::prng::hash_str(&format!("{:?}{:?}{}{}{:?}", src_px, dst_px, byte, which, mode));
        co.nontrivial = true;
        st.add("surface_blit_px_checked", n as u64);
        if let Some(k) = dst.get_data().iter().position(|p| !valid_premul(*p)) {
            let known_color = which == 1 && mode == BlendMode::Color && ctx.known.active("C18", "sw-composite-color-blend-invalid");
            if known_color {
                co.known.push(("C18:sw-composite-color-blend-invalid".to_string(), format!("blend_surface with Color gives {}", hex(dst.get_data()[k]))));
            } else {
                co.viol("C18", format!("{} leaves pixel #{} = {} (a colour channel exceeds alpha); it held {} and the source pixel landing there is valid too", ["blend_surface_with_alpha", "blend_surface", "copy_surface"][which as usize], k, hex(dst.get_data()[k]), hex(dst_px[k])));
            }
        }
        if want || !co.violations.is_empty() {
            let mut d = J::obj();
            d.set("surfaces", J::s(&format!("{}x{}", w, h)));
            d.set("source_pixels", pixels_json(&src_px));
            d.set("destination_pixels", pixels_json(&dst_px));
            d.set("call", J::s(&format!("{} at ({},{}) alpha {} mode {}", ["blend_surface_with_alpha", "blend_surface", "copy_surface"][which as usize], at.x, at.y, alpha, mode_name(mode))));
            co.desc = Some(d);
        }
        co
    });
}

/// pixels written through the word or byte view between drawing calls: whatever a target believes about its own
/// pixels (all opaque after an opaque clear, say) stops being true there
fn sub_raw_writes_between_calls(ctx: &Ctx, out: &mut Outcome, n: u64) {
    run_cases(ctx, out, SubSpec { name: "raw_writes_between_calls", cases: n, exhaustive: false, max_secs: 120. }, |i, want, st| {
        let mut rng = ctx.rng("raw_writes_between_calls", i);
        let (w, h) = (rng.int(2, 14) as i32, rng.int(2, 10) as i32);
        let n = (w * h) as usize;
        let fix = |p: u32| { let c = ch(p); let a = c[0]; pack(a as u32, c[1].min(a) as u32, c[2].min(a) as u32, c[3].min(a) as u32) };
        let mut dt = DrawTarget::new(w, h);
        let mut log: Vec<String> = Vec::new();
        let mut co = CaseOut::default();
        for round in 0..rng.int(1, 3) {
            if rng.chance(0.7) {
                let c = if rng.chance(0.7) { premul_pixel(&mut rng) | 0xff000000 } else { fix(premul_pixel(&mut rng)) };
                dt.clear(solid(fix(c)));
                log.push(format!("clear({})", hex(fix(c))));
            }
            if rng.chance(0.4) {
                dt.fill_rect(rng.int(0, w as i64 - 1) as f32, 0., 2., h as f32, &Source::Solid(solid(premul_pixel(&mut rng) | 0xff000000)), &opts(BlendMode::SrcOver, 1., true));
                log.push("fill_rect(opaque, SrcOver)".to_string());
            }
            // valid pixels of every kind, through either view
            let spots: Vec<(usize, u32)> = (0..rng.int(1, n as i64)).map(|_| (rng.below(n as u64) as usize, match rng.below(3) { 0 => 0, 1 => fix(premul_pixel(&mut rng)), _ => fix(premul_pixel(&mut rng) & 0x7fffffff) })).collect();
            let bytes = rng.chance(0.5);
            for (k, v) in &spots {
                if bytes {
                    dt.get_data_u8_mut()[4 * k..4 * k + 4].copy_from_slice(&v.to_ne_bytes());
                } else {
                    dt.get_data_mut()[*k] = *v;
                }
            }
            log.push(format!("{} pixels written through {}", spots.len(), if bytes { "get_data_u8_mut" } else { "get_data_mut" }));
            let before = dt.get_data().to_vec();
            // a call that draws over them
            let src_c = if rng.chance(0.5) { premul_pixel(&mut rng) | 0xff000000 } else { fix(premul_pixel(&mut rng)) };
            let o = opts(if rng.chance(0.7) { BlendMode::SrcOver } else { random_mode(&mut rng) }, if rng.chance(0.7) { 1. } else { random_alpha(&mut rng) }, true);
            let (iw, ih) = (rng.int(1, w as i64) as i32, rng.int(1, h as i64) as i32);
            let img = Img { w: iw, h: ih, data: random_image_data(&mut rng, iw, ih) };
            let call: Op = match rng.below(4) {
                0 => Op::FillRect(rng.int(-1, 2) as f32, rng.int(-1, 2) as f32, w as f32, h as f32, SrcSpec::Solid(fix(src_c)), o),
                1 => Op::DrawImageAt(rng.int(-1, 2) as f32, rng.int(-1, 2) as f32, img, o),
                2 => Op::Fill(small_shape(&mut rng, w, h), SrcSpec::Solid(fix(src_c)), o),
                _ => Op::FillRect(0.5, 0.5, w as f32 - 1., h as f32 - 1., SrcSpec::Solid(fix(src_c)), o),
            };
            call.apply(&mut dt);
            log.push(format!("{}", call.name()));
            st.add("calls_after_raw_writes", 1);
            let color_mode = o.blend_mode == BlendMode::Color;
            if let Some(k) = dt.get_data().iter().position(|p| !valid_premul(*p)) {
                if color_mode && ctx.known.active("C18", "sw-composite-color-blend-invalid") {
                    co.known.push(("C18:sw-composite-color-blend-invalid".to_string(), format!("{} with Color gives {}", call.name(), hex(dt.get_data()[k]))));
                } else {
                    co.viol("C18", format!("round {}: {} leaves pixel #{} = {} (a colour channel exceeds alpha); it held the valid pixel {}", round, call.name(), k, hex(dt.get_data()[k]), hex(before[k])));
                }
                break;
            }
            // the same call on a fresh target holding the same pixels gives the same pixels
            let mut twin = DrawTarget::from_vec(w, h, before.clone());
            call.apply(&mut twin);
            if let Some(d) = super::c14::first_diff(dt.get_data(), twin.get_data(), w) {
                co.viol("C18", format!("round {}: {} after pixels were written through a view differs from the same call on a fresh target holding the same pixels at {}", round, call.name(), d));
                break;
            }
        }
        co.hash = crate::prng::hash_str(&format!("{:?}{:?}", log, dt.get_data()));
        co.nontrivial = true;
        if want || !co.violations.is_empty() {
            co.desc = Some(J::Arr(log.iter().map(|l| J::s(l)).collect()));
        }
        co
    });
}

pub fn run(ctx: &Ctx) -> Outcome {
    let q = ctx.quick();
    let secs = if q { 60. } else { 600. };
    let base_rule = "Scenes are executed on the real DrawTarget under the instrumented wrapper: before every call the shadow model (clip stack with per-path coverage maps, layer stack, transform) \
                     and probes (shape coverage: white-on-transparent render; source colour: full-surface Src render; effective clip: white fill on a clip-only twin) give each pixel's inputs; after the call every pixel of every buffer \
                     (surface and open layers, read through the verif_layer hook) is checked. A scene is non-trivial when at least one pixel changed and at least one was asserted unchanged; distinct = hash of the whole scene.";
    let mut out;
    match ctx.prop.as_str() {
        "C02" => {
            out = Outcome::new(&format!("C02 frame monitor: pixels with zero shape coverage, outside a pushed clip rect, with zero coverage in a pushed clip path, or outside the shape's dilated control hull must keep their value bit for bit. {}", base_rule));
            sub_directed(ctx, &mut out);
            let mut p = SceneProfile::general();
            p.ops = (2, 8);
            sub_general(ctx, &mut out, "scenes_partial_shapes", p, ctx.n(100_000, 1_500_000), secs);
            sub_mask_lab(ctx, &mut out, ctx.n(12_000, 150_000), secs / 2.);
            sub_layer_scenarios(ctx, &mut out, ctx.n(6_000, 100_000), secs / 2.);
        }
        "C03" => {
            out = Outcome::new(&format!(
                "C03 formula monitor: out == d at zero coverage/clip, out == Blend(s,d) exactly at full coverage without partial clip, |out - interpolation| <= 3 LSB otherwise, identical inputs give identical outputs within a call, solid sources are the colour scaled by the alpha byte. Pixel lab: mask() with all 256 coverage bytes; every opacity byte x 28 modes x 3 clip variants through layers (exhaustive). {}",
                base_rule
            ));
            sub_directed(ctx, &mut out);
            sub_opacity_lab(ctx, &mut out);
            sub_mask_lab(ctx, &mut out, ctx.n(20_000, 300_000), secs / 2.);
            sub_general(ctx, &mut out, "scenes", SceneProfile::general(), ctx.n(80_000, 1_000_000), secs);
            sub_layer_scenarios(ctx, &mut out, ctx.n(6_000, 100_000), secs / 2.);
        }
        "C05" => {
            out = Outcome::new(&format!(
                "C05 clip monitors: the observed effective clip equals the shadow model of the whole stack after every push/pop (0 outside any rect or where a path has zero coverage, 255 where everything covers, product band otherwise), pop_clip restores the recorded clip exactly, rect-clipped draws equal the unclipped draw inside the clip exactly, push order does not matter. {}",
                base_rule
            ));
            sub_directed(ctx, &mut out);
            let p = SceneProfile { max_size: 12, clips: 1.6, layers: 0.3, transforms: 0.5, solid_weight: 6, ops: (4, 14) };
            sub_general(ctx, &mut out, "scenes_clip_heavy", p, ctx.n(80_000, 1_200_000), secs);
            sub_clip_order(ctx, &mut out, ctx.n(80_000, 1_000_000), secs / 2.);
            sub_layer_scenarios(ctx, &mut out, ctx.n(10_000, 150_000), secs / 2.);
        }
        "C06" => {
            out = Outcome::new(&format!(
                "C06 layer monitors: a pushed layer is transparent and large enough for the clip, every call inside changes only the innermost layer buffer (checked with the same per-pixel oracles on the buffer), pop_layer composites the buffer once with the opacity byte and blend mode through the clip, transform and other buffers untouched; plus an end-to-end reference through the public API only: the group rendered on a separate transparent surface and composited once. {}",
                base_rule
            ));
            sub_directed(ctx, &mut out);
            let p = SceneProfile { max_size: 12, clips: 0.6, layers: 1.6, transforms: 0.4, solid_weight: 6, ops: (4, 14) };
            sub_general(ctx, &mut out, "scenes_layer_heavy", p, ctx.n(60_000, 1_000_000), secs);
            sub_isolated_group(ctx, &mut out, ctx.n(60_000, 1_000_000), secs);
            sub_layer_scenarios(ctx, &mut out, ctx.n(20_000, 400_000), secs);
        }
        "C18" => {
            out = Outcome::new(&format!(
                "C18 premultiplied monitor: every pixel of every buffer after every call must satisfy r,g,b <= a whenever its previous value and its source colour did; Color/from_unpremultiplied_argb over all 65536 (alpha, channel) pairs; the formula of record on random valid pairs. {}",
                base_rule
            ));
            sub_directed(ctx, &mut out);
            sub_color_conversions(ctx, &mut out);
            sub_formula_validity(ctx, &mut out, ctx.n(1_000_000, 20_000_000));
            sub_layer_scenarios(ctx, &mut out, ctx.n(6_000, 100_000), 60.);
            sub_surface_blits_validity(ctx, &mut out, ctx.n(40_000, 800_000));
            sub_raw_writes_between_calls(ctx, &mut out, ctx.n(20_000, 400_000));
            sub_opacity_lab(ctx, &mut out);
            sub_mask_lab(ctx, &mut out, ctx.n(10_000, 200_000), secs / 2.);
            let p = SceneProfile { max_size: 12, clips: 0.6, layers: 0.8, transforms: 0.3, solid_weight: 4, ops: (3, 10) };
            sub_general(ctx, &mut out, "scenes", p, ctx.n(60_000, 1_000_000), secs);
        }
        _ => unreachable!(),
    }
    out.assume("shape coverage and source colour are observed by probing the same library (factoring: C01/C04/C08/C09 own coverage, C12/C13 own source colours); a rasteriser-independent hull frame and analytically known coverage (mask bytes, integer rects, opacity) keep the compositing monitors from depending on the rasteriser entirely");
    out.assume("sw_composite::blend::* is the formula of record for the 28 modes");
    out.assume("tolerance 3 LSB per channel where the statement leaves rounding open; the largest deviation seen is reported under observed_maxima");
    out
}
