//! C10 - a drawing call's effect is independent of earlier calls (fresh-twin history differential).
//!
//! Long random histories run on one DrawTarget. After every unit (a single call, or a whole
//! push_layer .. pop_layer group) a fresh twin is built from the pixels before the unit with the
//! transform and clip stack re-established, the unit is replayed on it, and the pixels are compared
//! bit for bit. The verif_state hook only steers (injects followers that make stale state visible).

use crate::gen::*;
use crate::json::J;
use crate::ops::*;
use crate::prng::Rng;
use crate::runner::*;
use crate::util::*;
use raqote::*;

#[derive(Clone, Debug)]
enum ClipRec {
    Rect(i32, i32, i32, i32),
    /// the path already transformed by the transform in force when it was pushed
    Path(Path),
}

fn rect_path(x: f32, y: f32, w: f32, h: f32) -> Path {
    let mut pb = PathBuilder::new();
    pb.rect(x, y, w, h);
    pb.finish()
}

/// paths whose rendering depends on leftover cursor / rasteriser state if there is any
fn follower(rng: &mut Rng, w: i32, h: i32) -> Path {
    let (wf, hf) = (w as f32, h as f32);
    let mut ops = Vec::new();
    match rng.below(5) {
        0 => {
            // starts with LineTo
            ops.push(PathOp::LineTo(Point::new(wf * 0.8, hf * 0.2)));
            ops.push(PathOp::LineTo(Point::new(wf * 0.5, hf * 0.9)));
            ops.push(PathOp::LineTo(Point::new(wf * 0.1, hf * 0.3)));
        }
        1 => {
            ops.push(PathOp::QuadTo(Point::new(wf * 0.9, hf * 0.1), Point::new(wf * 0.6, hf * 0.8)));
            ops.push(PathOp::LineTo(Point::new(wf * 0.2, hf * 0.6)));
        }
        2 => {
            ops.push(PathOp::CubicTo(Point::new(wf * 0.2, hf * 0.1), Point::new(wf * 0.9, hf * 0.3), Point::new(wf * 0.5, hf * 0.95)));
            ops.push(PathOp::Close);
        }
        3 => {
            // lone Close, then a shape
            ops.push(PathOp::Close);
            ops.push(PathOp::LineTo(Point::new(wf * 0.7, hf * 0.7)));
            ops.push(PathOp::LineTo(Point::new(wf * 0.1, hf * 0.9)));
            ops.push(PathOp::LineTo(Point::new(wf * 0.4, hf * 0.1)));
        }
        _ => {
            // full-height polygon: walks every edge bucket
            ops.push(PathOp::MoveTo(Point::new(wf * 0.3, -2.)));
            ops.push(PathOp::LineTo(Point::new(wf * 0.7, hf + 2.)));
            ops.push(PathOp::LineTo(Point::new(wf * 0.1, hf + 2.)));
            ops.push(PathOp::Close);
        }
    }
    Path { ops, winding: Winding::NonZero }
}

/// calls that draw nothing but may leave something behind
fn residue_maker(rng: &mut Rng, w: i32, h: i32) -> Op {
    let (wf, hf) = (w as f32, h as f32);
    let src = SrcSpec::Solid(premul_pixel(rng));
    let o = opts(random_mode(rng), 1.0, rng.chance(0.6));
    let off = |rng: &mut Rng, k: u64| -> Path {
        let (dx, dy) = match k {
            0 => (0., -(hf + 20.)),
            1 => (0., hf + 20.),
            2 => (-(wf + 20.), 0.),
            _ => (wf + 20., 0.),
        };
        let mut pb = PathBuilder::new();
        pb.move_to(dx + 1., dy + 1.);
        pb.line_to(dx + wf, dy + rng.range(0., 3.) as f32);
        pb.quad_to(dx + wf * 0.5, dy + hf * 2., dx + 2., dy + hf);
        if rng.chance(0.5) {
            pb.close();
        }
        pb.finish()
    };
    match rng.below(9) {
        0 => Op::Fill(Path { ops: vec![], winding: Winding::NonZero }, src, o),
        1 => {
            let k = rng.below(4);
            Op::Fill(off(rng, k), src, o)
        }
        2 => {
            let k = rng.below(4);
            Op::Stroke(off(rng, k), src, random_style(rng, 3.), o)
        }
        3 => Op::Fill(Path { ops: vec![PathOp::MoveTo(Point::new(1., 1.)), PathOp::LineTo(Point::new(wf, 1.)), PathOp::LineTo(Point::new(2., 1.))], winding: Winding::NonZero }, src, o), // zero area
        4 => {
            let mut st = random_style(rng, 3.);
            st.width = *rng.pick(&[0.0f32, -1.0, f32::NAN]);
            Op::Stroke(random_path(rng, w, h, true), src, st, o)
        }
        5 => Op::FillRect(wf + 5., 0., 3., 3., src, o),
        6 => Op::Fill(Path { ops: vec![PathOp::MoveTo(Point::new(wf * 0.5, hf * 0.5))], winding: Winding::EvenOdd }, src, o), // lone MoveTo
        7 => Op::Fill(Path { ops: vec![PathOp::MoveTo(Point::new(1., 1.)), PathOp::LineTo(Point::new(wf * 0.7, hf * 0.9))], winding: Winding::NonZero }, src, o), // two points: zero area, cursor left inside
        _ => Op::Stroke(Path { ops: vec![PathOp::MoveTo(Point::new(2., 2.)), PathOp::LineTo(Point::new(2., 2.))], winding: Winding::NonZero }, src, random_style(rng, 3.), o),
    }
}

#[derive(Clone, Debug)]
enum Unit {
    One(Op),
    /// push_layer .. pop_layer with everything in between (well nested)
    Group(Vec<Op>),
}

fn gen_blit(rng: &mut Rng, w: i32, h: i32) -> Op {
    let (sw, sh) = (rng.int(1, w as i64 + 2) as i32, rng.int(1, h as i64 + 2) as i32);
    let img = Img { w: sw, h: sh, data: random_image_data(rng, sw, sh) };
    let r = if rng.chance(0.5) { (0, 0, sw, sh) } else { (rng.int(-1, sw as i64 - 1) as i32, rng.int(-1, sh as i64 - 1) as i32, rng.int(1, sw as i64 + 1) as i32, rng.int(1, sh as i64 + 1) as i32) };
    let d = (rng.int(-2, w as i64 - 1) as i32, rng.int(-2, h as i64 - 1) as i32);
    Op::BlitSurface(rng.below(3) as u8, img, r, d, random_mode(rng), *rng.pick(&[1.0f32, 0.5, 0.0, 254. / 255.]))
}

fn gen_draw(rng: &mut Rng, w: i32, h: i32) -> Op {
    if rng.chance(0.06) {
        return gen_blit(rng, w, h);
    }
    if rng.chance(0.03) {
        // wholly off the surface, tens of thousands of pixels out (nothing to draw, nothing to remember)
        let far = *rng.pick(&[33000.0f32, 40000., -40000., 70000., -100000.]);
        let (fx, fy) = if rng.chance(0.7) { (far, rng.range(0., h as f64) as f32) } else { (rng.range(0., w as f64) as f32, far) };
        return Op::Fill(rect_path(fx, fy, rng.range(1., 9.) as f32, rng.range(1., 9.) as f32), SrcSpec::Solid(premul_pixel(rng)), opts(BlendMode::SrcOver, 1., rng.chance(0.7)));
    }
    let src = random_source(rng, w, h, 6);
    let o = DrawOptions { blend_mode: random_mode(rng), alpha: random_alpha(rng), antialias: if rng.chance(0.7) { AntialiasMode::Gray } else { AntialiasMode::None } };
    match rng.below(12) {
        0 | 1 => Op::Fill(follower(rng, w, h), src, o),
        2 => residue_maker(rng, w, h),
        3 | 4 => {
            let c = rng.chance(0.4);
            Op::Fill(random_path(rng, w, h, c), src, o)
        }
        5 => Op::Fill(small_shape(rng, w, h), src, o),
        6 => {
            let c = rng.chance(0.4);
            Op::Stroke(random_path(rng, w, h, c), src, random_style(rng, 4.), o)
        }
        7 => Op::Stroke(follower(rng, w, h), src, random_style(rng, 4.), o),
        8 => Op::FillRect(rng.int(-2, w as i64) as f32, rng.int(-2, h as i64) as f32, rng.int(0, w as i64 + 2) as f32, rng.int(0, h as i64 + 2) as f32, src, o),
        9 => {
            if rng.chance(0.5) {
                Op::Clear(premul_pixel(rng))
            } else {
                let (iw, ih) = (rng.int(1, 5) as i32, rng.int(1, 5) as i32);
                let img = Img { w: iw, h: ih, data: random_image_data(rng, iw, ih) };
                if rng.chance(0.5) {
                    Op::DrawImageAt(rng.int(-3, w as i64) as f32, rng.int(-3, h as i64) as f32, img, o)
                } else {
                    Op::DrawImageWithSizeAt(rng.range(0.5, w as f64 + 2.) as f32, rng.range(0.5, h as f64 + 2.) as f32, rng.range(-2., w as f64) as f32, rng.range(-2., h as f64) as f32, img, o)
                }
            }
        }
        10 => {
            let (mw, mh) = (rng.int(1, w as i64) as i32, rng.int(1, h as i64) as i32);
            Op::Mask(src, rng.int(-2, w as i64 - 1) as i32, rng.int(-2, h as i64 - 1) as i32, mw, mh, (0..(mw * mh)).map(|_| rng.byte_biased()).collect())
        }
        _ => {
            // very tall or very short shapes (different bucket ranges in consecutive calls)
            let y0 = if rng.chance(0.5) { -50. } else { rng.range(0., h as f64) as f32 };
            let hh = if rng.chance(0.5) { 500. } else { 0.3 };
            Op::Fill(rect_path(rng.range(-1., w as f64) as f32, y0, rng.range(0.5, w as f64) as f32, hh), src, o)
        }
    }
}

/// a star with many vertices (what an implementation might think worth remembering)
fn big_star(rng: &mut Rng, w: i32, h: i32) -> Path {
    let n = rng.int(8, 24) as usize * 2;
    let (cx, cy) = (rng.range(0.2, 0.8) * w as f64, rng.range(0.2, 0.8) * h as f64);
    let (r0, r1) = (rng.range(0.3, 0.8) * w.min(h) as f64, rng.range(0.1, 0.4) * w.min(h) as f64);
    let mut pb = PathBuilder::new();
    for k in 0..n {
        let a = std::f64::consts::TAU * k as f64 / n as f64;
        let r = if k % 2 == 0 { r0 } else { r1 };
        let (x, y) = ((cx + r * a.cos()) as f32, (cy + r * a.sin()) as f32);
        if k == 0 { pb.move_to(x, y) } else { pb.line_to(x, y) }
    }
    pb.close();
    pb.finish()
}

fn gen_history(rng: &mut Rng, w: i32, h: i32, len: usize) -> Vec<Unit> {
    let mut units = Vec::new();
    // a few solid colours that come back throughout the history, on spans of different lengths (whatever is kept
    // between calls - a row buffer, a remembered colour - meets the same colour again with another extent)
    let palette: Vec<u32> = (0..3).map(|_| premul_pixel(rng)).collect();
    let mut clip_depth = 0;
    // clip paths pushed so far: the same path comes back later under another enclosing clip
    let mut pushed_paths: Vec<Path> = Vec::new();
    while units.len() < len {
        let r = rng.below(20);
        match r {
            0 | 1 if clip_depth < 4 => {
                if rng.chance(0.5) {
                    let (x0, y0) = (rng.int(-2, w as i64 - 1) as i32, rng.int(-2, h as i64 - 1) as i32);
                    units.push(Unit::One(Op::PushClipRect(x0, y0, x0 + rng.int(0, w as i64 + 2) as i32, y0 + rng.int(0, h as i64 + 2) as i32)));
                } else {
                    let p = match rng.below(9) {
                        0 => {
                            // clip path wholly off the surface
                            rect_path(w as f32 + 10., -30., 5., 5.)
                        }
                        1 => follower(rng, w, h),
                        4 | 5 => big_star(rng, w, h),
                        6 | 7 | 8 if !pushed_paths.is_empty() => rng.pick(&pushed_paths[..]).clone(),
                        _ => {
                            let c = rng.chance(0.3);
                            random_path(rng, w, h, c)
                        }
                    };
                    pushed_paths.push(p.clone());
                    units.push(Unit::One(Op::PushClip(p)));
                }
                clip_depth += 1;
            }
            2 if clip_depth > 0 => {
                units.push(Unit::One(Op::PopClip));
                clip_depth -= 1;
            }
            6 if clip_depth < 3 && rng.chance(0.5) => {
                // a clip path that misses the enclosing clip rectangle, unwound again without drawing in between
                let (x0, y0) = (rng.int(0, (w as i64 - 2).max(0)) as i32, rng.int(0, (h as i64 - 2).max(0)) as i32);
                units.push(Unit::One(Op::PushClipRect(x0, y0, x0 + 2, y0 + 2)));
                let p = if rng.chance(0.5) { rect_path(x0 as f32 + 3., 0., w as f32, h as f32) } else { rect_path(w as f32 + 10., -30., 5., 5.) };
                units.push(Unit::One(Op::PushClip(p)));
                units.push(Unit::One(Op::PopClip));
                units.push(Unit::One(Op::PopClip));
                units.push(Unit::One(Op::Fill(follower(rng, w, h), SrcSpec::Solid(premul_pixel(rng)), opts(BlendMode::SrcOver, 1., true))));
            }
            3 | 4 => {
                let t = match rng.below(8) {
                    0 => Transform::scale(0., 0.),
                    1 => Transform::new(1., 2., 2., 4., 0., 0.),
                    2 => {
                        let far = if rng.chance(0.3) { 60000. } else { 500. };
                        Transform::translation(rng.range(-far, far) as f32, rng.range(-500., 500.) as f32)
                    }
                    3 => Transform::identity(),
                    _ => random_transform(rng, w as f64, h as f64),
                };
                units.push(Unit::One(Op::SetTransform(t)));
            }
            5 => {
                // a layer group
                let mut g = vec![Op::PushLayer(*rng.pick(&[0.0f32, 0.5, 1.0, 0.3]), random_mode(rng))];
                let n = rng.int(0, 4);
                let mut inner_clips = 0;
                for _ in 0..n {
                    match rng.below(6) {
                        0 => {
                            g.push(Op::PushClipRect(0, 0, rng.int(1, w as i64) as i32, rng.int(1, h as i64) as i32));
                            inner_clips += 1;
                        }
                        1 => g.push(Op::SetTransform(random_transform(rng, w as f64, h as f64))),
                        _ => g.push(gen_draw(rng, w, h)),
                    }
                }
                for _ in 0..inner_clips {
                    g.push(Op::PopClip);
                }
                g.push(Op::PopLayer);
                units.push(Unit::Group(g));
            }
            12 if clip_depth < 3 && rng.chance(0.4) && w >= 4 && h >= 4 => {
                // a layer pushed under a small clip rectangle that is popped while the layer is open; a clip path
                // pushed inside the layer outlives it: afterwards the visible state is just "one more clip path"
                let (x0, y0) = (rng.int(0, w as i64 - 3) as i32, rng.int(0, h as i64 - 3) as i32);
                let p = if rng.chance(0.5) { big_star(rng, w, h) } else { random_path(rng, w, h, false) };
                pushed_paths.push(p.clone());
                let mut g = vec![Op::PushClipRect(x0, y0, x0 + rng.int(1, 3) as i32, y0 + rng.int(1, 3) as i32), Op::PushLayer(*rng.pick(&[1.0f32, 0.5]), BlendMode::SrcOver), Op::PopClip, Op::PushClip(p)];
                if rng.chance(0.5) {
                    g.push(gen_draw(rng, w, h));
                }
                g.push(Op::PopLayer);
                units.push(Unit::Group(g));
                clip_depth += 1;
            }
            10 | 11 if rng.chance(0.5) => {
                let c = *rng.pick(&palette[..]);
                let o = opts(if rng.chance(0.7) { BlendMode::SrcOver } else { random_mode(rng) }, 1., rng.chance(0.7));
                let (x, rw) = (rng.int(0, w as i64 - 1) as f32, rng.int(1, w as i64) as f32);
                let y = rng.int(0, h as i64 - 1) as f32;
                units.push(Unit::One(if rng.chance(0.6) { Op::FillRect(x, y, rw, rng.int(1, 3) as f32, SrcSpec::Solid(c), o) } else { Op::Fill(rect_path(x + 0.5, y, rw, 1.5), SrcSpec::Solid(c), o) }));
            }
            9 if rng.chance(0.3) => {
                // the same clear before and after a call that writes pixels by another route
                let c = premul_pixel(rng);
                units.push(Unit::One(Op::Clear(c)));
                units.push(Unit::One(if rng.chance(0.6) { gen_blit(rng, w, h) } else { gen_draw(rng, w, h) }));
                units.push(Unit::One(Op::Clear(c)));
            }
            7 | 8 if !units.is_empty() => {
                // the previous call again with one thing changed: whatever an implementation remembers
                // from the last call (a cached tolerance, shader, path, weight) must not leak into this one
                let prev = units[units.len() - 1].clone();
                if let Unit::One(op) = prev {
                    let o2 = opts(random_mode(rng), random_alpha(rng), rng.chance(0.7));
                    // ... or with nothing changed but the transform it is drawn under
                    if op.is_draw() && rng.chance(0.25) {
                        let t = if rng.chance(0.3) { Transform::translation(rng.int(-3, 3) as f32, rng.int(-3, 3) as f32 + 0.5) } else { random_transform(rng, w as f64, h as f64) };
                        units.push(Unit::One(Op::SetTransform(t)));
                        units.push(Unit::One(op));
                        continue;
                    }
                    let varied = match op {
                        // the same source with one ingredient changed
                        Op::Fill(p, s, o) if rng.chance(0.3) => Op::Fill(p, vary_source(rng, &s), o),
                        Op::Stroke(p, s, st, o) if rng.chance(0.3) => Op::Stroke(p, vary_source(rng, &s), st, o),
                        Op::FillRect(x, y, rw, rh, s, o) if rng.chance(0.3) => Op::FillRect(x, y, rw, rh, vary_source(rng, &s), o),
                        Op::Fill(p, s, o) => match rng.below(3) {
                            0 => Op::Fill(p, random_source(rng, w, h, 3), o),
                            1 => Op::Fill(follower(rng, w, h), s, o),
                            _ => Op::Fill(p, s, o2),
                        },
                        Op::Stroke(p, s, st, o) => match rng.below(4) {
                            0 => Op::Stroke(p, random_source(rng, w, h, 3), st, o),
                            1 => Op::Stroke(p, s, random_style(rng, 4.), o),
                            2 => Op::Fill(p, s, o),
                            _ => Op::Stroke(p, s, st, o2),
                        },
                        Op::FillRect(x, y, rw, rh, s, o) => {
                            if rng.chance(0.5) {
                                Op::FillRect(x, y, rw, rh, random_source(rng, w, h, 3), o2)
                            } else {
                                Op::FillRect(x + 0.5, y, rw, rh, s, o)
                            }
                        }
                        Op::SetTransform(t) => Op::SetTransform(t),
                        other => other,
                    };
                    units.push(Unit::One(varied));
                } else {
                    units.push(Unit::One(gen_draw(rng, w, h)));
                }
            }
            _ => units.push(Unit::One(gen_draw(rng, w, h))),
        }
    }
    units
}

fn unit_json(u: &Unit) -> J {
    match u {
        Unit::One(op) => op.desc(),
        Unit::Group(g) => ops_json(g),
    }
}

struct Shadow {
    ctm: Transform,
    clips: Vec<ClipRec>,
}

impl Shadow {
    fn twin(&self, w: i32, h: i32, pixels: &[u32]) -> DrawTarget {
        let mut t = DrawTarget::from_vec(w, h, pixels.to_vec());
        for c in &self.clips {
            match c {
                ClipRec::Rect(a, b, c2, d) => t.push_clip_rect(IntRect::new(IntPoint::new(*a, *b), IntPoint::new(*c2, *d))),
                ClipRec::Path(p) => t.push_clip(p),
            }
        }
        t.set_transform(&self.ctm);
        t
    }
    fn track(&mut self, op: &Op) {
        match op {
            Op::SetTransform(t) => self.ctm = *t,
            Op::PushClipRect(a, b, c, d) => self.clips.push(ClipRec::Rect(*a, *b, *c, *d)),
            Op::PushClip(p) => self.clips.push(ClipRec::Path(p.clone().transform(&self.ctm))),
            Op::PopClip => {
                self.clips.pop();
            }
            _ => {}
        }
    }
}

pub fn run_history(w: i32, h: i32, init: &[u32], units: &[Unit], st: &mut Stats, co: &mut CaseOut, steer: &mut Rng) {
    // one history in eight replays every twin call in a fresh thread (not under Miri: thread start-up
    // in the interpreter costs more than the calls)
    let fresh_thread = !cfg!(miri) && steer.below(8) == 0;
    let mut real = DrawTarget::from_vec(w, h, init.to_vec());
    let mut shadow = Shadow { ctm: Transform::identity(), clips: Vec::new() };
    let mut queue: Vec<Unit> = Vec::new();
    let mut idx = 0usize;
    let mut ui = 0usize;
    let mut changed_any = false;
    let mut unchanged_any = false;
    loop {
        // injected followers run before the next planned unit
        let unit = if let Some(u) = queue.pop() {
            u
        } else if ui < units.len() {
            ui += 1;
            units[ui - 1].clone()
        } else {
            break;
        };
        // the steering may have unwound the clip stack: planned pops without a push are skipped
        if matches!(unit, Unit::One(Op::PopClip)) && shadow.clips.is_empty() {
            continue;
        }
        let before = real.get_data().to_vec();
        let ops: Vec<Op> = match &unit {
            Unit::One(op) => vec![op.clone()],
            Unit::Group(g) => g.clone(),
        };
        let draws = ops.iter().any(|o| o.is_draw() || matches!(o, Op::PopLayer));
        let mut twin = if draws { Some(shadow.twin(w, h, &before)) } else { None };
        for op in &ops {
            op.apply(&mut real);
        }
        if let Some(t) = twin.as_mut() {
            if fresh_thread {
                // the twin is built and used in a thread of its own: whatever the library remembers per
                // thread (a cache keyed by less than the call's arguments) is empty there
                let (sh, bf, os) = (&shadow, &before, &ops);
                let px: Vec<u32> = std::thread::scope(|sc| {
                    sc.spawn(move || {
                        let mut t2 = sh.twin(w, h, bf);
                        for op in os {
                            op.apply(&mut t2);
                        }
                        t2.get_data().to_vec()
                    })
                    .join()
                    .unwrap_or_else(|p| std::panic::resume_unwind(p))
                });
                t.get_data_mut().copy_from_slice(&px);
                st.add("twin_calls_run_in_a_fresh_thread", 1);
            } else {
                for op in &ops {
                    op.apply(t);
                }
            }
            st.add("calls_compared_with_a_fresh_twin", 1);
            let a = real.get_data();
            let b = t.get_data();
            if a != &before[..] {
                changed_any = true
            } else {
                unchanged_any = true
            }
            if a != b {
                let k = a.iter().zip(b.iter()).position(|(x, y)| x != y).unwrap();
                co.viol(
                    "C10",
                    format!(
                        "call #{} ({}) gives {} at ({},{}) on the long-lived target but {} on a fresh target holding the same pixels, transform and clip; call = {}",
                        idx,
                        ops.iter().map(|o| o.name()).collect::<Vec<_>>().join("+"),
                        hex(a[k]),
                        k as i32 % w,
                        k as i32 / w,
                        hex(b[k]),
                        unit_json(&unit).to_string_pretty().replace('\n', " ")
                    ),
                );
                return;
            }
        }
        for op in &ops {
            shadow.track(op);
        }
        // steering only: leftover rasteriser state must be made visible by what follows
        let s = real.verif_state();
        if !s.rasterizer_idle {
            st.add("steering_rasterizer_not_idle_after_call", 1);
            if queue.is_empty() {
                // make the leftovers visible: followers drawn without any clip under the identity
                // (the queue is a stack: pushed in reverse order of execution)
                for _ in 0..3 {
                    queue.push(Unit::One(Op::Fill(follower(steer, w, h), SrcSpec::Solid(0xff20c040), opts(BlendMode::SrcOver, 1., true))));
                }
                queue.push(Unit::One(Op::SetTransform(Transform::identity())));
                for _ in 0..shadow.clips.len() {
                    queue.push(Unit::One(Op::PopClip));
                }
            }
        }
        if !s.cursor_empty {
            st.add("steering_cursor_left_set_after_call", 1);
        }
        if s.clip_depth != shadow.clips.len() || s.layer_depth != 0 {
            co.viol("C10", format!("after call #{} the target has {} clips and {} layers, the history has {} and 0", idx, s.clip_depth, s.layer_depth, shadow.clips.len()));
            return;
        }
        idx += 1;
    }
    co.nontrivial = changed_any && unchanged_any;
    st.add("histories_completed", 1);
    st.add("calls_executed", idx as u64);
}

fn tri(a: (f32, f32), b: (f32, f32), c: (f32, f32)) -> Path {
    Path { ops: vec![PathOp::MoveTo(Point::new(a.0, a.1)), PathOp::LineTo(Point::new(b.0, b.1)), PathOp::LineTo(Point::new(c.0, c.1)), PathOp::Close], winding: Winding::NonZero }
}

pub fn run(ctx: &Ctx) -> Outcome {
    let mut out = Outcome::new(
        "long random call histories (fills, strokes, fill_rect, clear, mask, clip pushes/pops incl. off-surface clip paths, transform changes incl. singular and far translations, layer groups; biased towards calls that draw nothing and towards followers that expose leftovers: paths starting with LineTo/QuadTo/CubicTo/Close, full-height polygons, tall/short alternation) on one DrawTarget; \
         after every call the same call is replayed on a fresh DrawTarget built from the pixels before the call with the transform and clip stack re-established (clip paths re-pushed pre-transformed under the identity); pixels must be bit-identical. Non-trivial history: at least one call changed pixels and at least one left them unchanged; distinct = hash of the history.",
    );
    let (len_lo, len_hi) = if ctx.miri { (20, 40) } else { (60, 200) };
    let n = if ctx.miri { 64 } else { ctx.n(3_000, 40_000) };
    run_cases(ctx, &mut out, SubSpec { name: "histories", cases: n, exhaustive: false, max_secs: if ctx.quick() { 40. } else { 900. } }, |i, want, st| {
        let mut rng = ctx.rng("histories", i);
        let (w, h) = if ctx.miri { (rng.int(2, 8) as i32, rng.int(2, 8) as i32) } else { (rng.int(1, 24) as i32, rng.int(1, 24) as i32) };
        let init = canary(&mut rng, (w * h) as usize);
        let len = rng.int(len_lo, len_hi) as usize;
        let units = gen_history(&mut rng, w, h, len);
        let mut co = CaseOut::default();
        co.hash = crate::prng::hash_str(&format!("{:?}{:?}{:?}", (w, h), init, units));
        let mut steer = ctx.rng("steer", i);
        let res = guarded(|| {
            let mut co2 = CaseOut::default();
            run_history(w, h, &init, &units, st, &mut co2, &mut steer);
            co2
        });
        match res {
            Ok(c2) => {
                co.nontrivial = c2.nontrivial;
                co.violations = c2.violations;
            }
            Err(p) => co.viol("C10", format!("panic during the history: {}", p)),
        }
        if want || !co.violations.is_empty() {
            let mut d = J::obj();
            d.set("surface", J::s(&format!("{}x{}", w, h)));
            d.set("history_length", J::Int(units.len() as i64));
            d.set("first_units", J::Arr(units.iter().take(if want && co.violations.is_empty() { 6 } else { 400 }).map(unit_json).collect()));
            co.desc = Some(d);
        }
        co
    });
    // counts of calls that wrap: one fill touches the middle rows, then 250..261 (in the thorough tier also 65 530..65 541)
    // fills that stay away from them, then a fill whose bounds span the middle rows without covering them. Whatever a
    // target remembers per row or per call under a small counter comes round in between.
    if !ctx.miri {
        let reps: Vec<u64> = if ctx.quick() { (250..262).collect() } else { (250..262).chain(65_530..65_542).chain(508..516).collect() };
        run_cases(ctx, &mut out, SubSpec { name: "hundreds_of_calls_between_two_related_ones", cases: reps.len() as u64 * 2, exhaustive: false, max_secs: if ctx.quick() { 60. } else { 900. } }, |i, want, st| {
            let mut rng = ctx.rng("hundreds_of_calls_between_two_related_ones", i);
            let n = reps[(i as usize) % reps.len()];
            let aa = i as usize / reps.len() == 0 || rng.chance(0.5);
            let (w, h) = (rng.int(12, 20) as i32, 24);
            let init = canary(&mut rng, (w * h) as usize);
            let o = |rng: &mut Rng| DrawOptions { blend_mode: BlendMode::SrcOver, alpha: 1., antialias: if aa || rng.chance(0.5) { AntialiasMode::Gray } else { AntialiasMode::None } };
            let solid = |rng: &mut Rng| SrcSpec::Solid(premul_pixel(rng));
            let mut units: Vec<Unit> = Vec::new();
            // the middle rows, with partial coverage
            units.push(Unit::One(Op::Fill(tri((1.5, 8.3), (w as f32 - 1.5, 9.1), (w as f32 / 2., 15.6)), solid(&mut rng), o(&mut rng))));
            for k in 0..n {
                let y0 = (k % 4) as f32 + 0.25;
                units.push(Unit::One(Op::Fill(tri((1. + (k % 7) as f32, y0), (6. + (k % 5) as f32, y0 + 0.5), (3., y0 + 2.5)), solid(&mut rng), o(&mut rng))));
            }
            // bounds from row 1 to row 22, nothing between rows 7 and 17
            let mut ops = tri((2., 1.2), (w as f32 - 2., 2.), (w as f32 / 2., 6.5)).ops;
            ops.extend(tri((2., 17.5), (w as f32 - 2., 18.), (w as f32 / 2., 22.4)).ops);
            units.push(Unit::One(Op::Fill(Path { ops, winding: Winding::NonZero }, solid(&mut rng), o(&mut rng))));
            let mut co = CaseOut::default();
            co.hash = crate::prng::hash_u64s(&[i, n, w as u64]);
            let mut steer = ctx.rng("steer2", i);
            let res = guarded(|| {
                let mut co2 = CaseOut::default();
                run_history(w, h, &init, &units, st, &mut co2, &mut steer);
                co2
            });
            st.add("histories_with_hundreds_of_calls_between_two_related_ones", 1);
            match res {
                Ok(c2) => {
                    co.nontrivial = true;
                    co.violations = c2.violations;
                }
                Err(p) => co.viol("C10", format!("panic during the history: {}", p)),
            }
            if want || !co.violations.is_empty() {
                let mut d = J::obj();
                d.set("surface", J::s(&format!("{}x{}", w, h)));
                d.set("fills_in_between", J::Int(n as i64));
                co.desc = Some(d);
            }
            co
        });
    }
    out.assume("clip paths are re-pushed on the twin pre-transformed under the identity (C11's bit-identity of fill(path) under T and fill(path.transform(T)) under the identity)");
    out.assume("the verif_state hook only steers the workload; every verdict comes from pixels");
    out
}
