//! C16 - flattening preserves geometry and subpath structure.

use crate::geom::*;
use crate::json::J;
use crate::prng::Rng;
use crate::runner::*;
use crate::util::*;
use raqote::*;

fn bits_eq(a: &Point, b: &Point) -> bool {
    a.x.to_bits() == b.x.to_bits() && a.y.to_bits() == b.y.to_bits()
}

#[derive(Clone, Copy)]
enum Curve {
    Quad(P, P, P),
    Cubic(P, P, P, P),
}

impl Curve {
    fn at(&self, t: f64) -> P {
        match self {
            Curve::Quad(a, c, b) => quad_at(*a, *c, *b, t),
            Curve::Cubic(a, c1, c2, b) => cubic_at(*a, *c1, *c2, *b, t),
        }
    }
    /// (distance, parameter) of every local minimum of the distance from q to the curve
    fn closest_candidates(&self, q: P) -> Vec<(f64, f64)> {
        let n = 512usize;
        let d: Vec<f64> = (0..=n).map(|i| self.at(i as f64 / n as f64).dist(q)).collect();
        let mut out = Vec::new();
        for i in 0..=n {
            let left = if i > 0 { d[i - 1] } else { f64::INFINITY };
            let right = if i < n { d[i + 1] } else { f64::INFINITY };
            if d[i] <= left && d[i] <= right {
                let t0 = i as f64 / n as f64;
                let (mut lo, mut hi) = ((t0 - 1. / n as f64).max(0.), (t0 + 1. / n as f64).min(1.));
                for _ in 0..48 {
                    let m1 = lo + (hi - lo) / 3.;
                    let m2 = hi - (hi - lo) / 3.;
                    if self.at(m1).dist(q) < self.at(m2).dist(q) {
                        hi = m2
                    } else {
                        lo = m1
                    }
                }
                let t = (lo + hi) / 2.;
                let dt = self.at(t).dist(q);
                if dt < d[i] {
                    out.push((dt, t));
                } else {
                    out.push((d[i], t0));
                }
            }
        }
        out
    }
}

fn coord(rng: &mut Rng) -> f32 {
    match rng.below(12) {
        0 => rng.range(-4000., 4000.) as f32,
        1 => rng.int(-20, 60) as f32,
        2 => 0.,
        _ => rng.range(-20., 80.) as f32,
    }
}

fn gen_path(rng: &mut Rng) -> Path {
    let n = rng.int(1, 10);
    let mut ops = Vec::new();
    let pt = |rng: &mut Rng| Point::new(coord(rng), coord(rng));
    let mut last: Option<Point> = None;
    // points that MoveTo went to so far: a later subpath may start exactly where an earlier one started
    // (spokes from one centre) or where the path is right now
    let mut starts: Vec<Point> = Vec::new();
    for _ in 0..n {
        let k = rng.below(12);
        match k {
            0 | 1 => {
                let p = if !starts.is_empty() && rng.chance(0.25) {
                    *rng.pick(&starts[..])
                } else if last.is_some() && rng.chance(0.1) {
                    last.unwrap()
                } else {
                    pt(rng)
                };
                starts.push(p);
                ops.push(PathOp::MoveTo(p));
                last = Some(p);
            }
            2 | 3 => {
                let p = pt(rng);
                ops.push(PathOp::LineTo(p));
                last = Some(p);
            }
            4 => ops.push(PathOp::Close),
            5 | 6 | 7 | 8 => {
                let p = pt(rng);
                let c = if rng.chance(0.1) {
                    last.unwrap_or_else(|| pt(rng))
                } else if rng.chance(0.1) && last.is_some() {
                    // exactly on the line through the end points, inside or beyond them (integer end points
                    // and dyadic factors keep this exact)
                    let a = last.unwrap();
                    let (ax, ay, bx, by) = (a.x.round(), a.y.round(), p.x.round(), p.y.round());
                    let k = *rng.pick(&[-1.0f32, -0.5, 0.25, 0.5, 1.5, 2.0, 4.0]);
                    ops.push(PathOp::LineTo(Point::new(ax, ay)));
                    ops.push(PathOp::QuadTo(Point::new(ax + (bx - ax) * k, ay + (by - ay) * k), Point::new(bx, by)));
                    last = Some(Point::new(bx, by));
                    continue;
                } else {
                    pt(rng)
                };
                ops.push(PathOp::QuadTo(c, p));
                last = Some(p);
            }
            _ => {
                let c1 = pt(rng);
                let c2 = if rng.chance(0.1) { c1 } else { pt(rng) };
                let p = if rng.chance(0.05) { c2 } else { pt(rng) };
                ops.push(PathOp::CubicTo(c1, c2, p));
                last = Some(p);
            }
        }
        // curve or line directly after Close, consecutive Closes
        if rng.chance(0.1) {
            ops.push(PathOp::Close);
            if rng.chance(0.3) {
                ops.push(PathOp::Close);
            }
        }
    }
    Path { ops, winding: if rng.chance(0.5) { Winding::EvenOdd } else { Winding::NonZero } }
}

pub fn check_flatten(path: &Path, tol: f32, st: &mut Stats) -> Option<String> {
    check_flatten_with(path, tol, st, 1e-4, 1.)
}

/// `slack` x the largest coordinate is allowed on top of the tolerance for the f32 evaluation of the curve
/// (`base` is added to that coordinate: 1 for ordinary paths, 0 for microscopic ones)
pub fn check_flatten_with(path: &Path, tol: f32, st: &mut Stats, slack: f64, base: f64) -> Option<String> {
    let flat = path.flatten(tol);
    let tolf = tol as f64;
    let mut cur: Option<P> = None;
    let mut start: Option<P> = None;
    let mut oi = 0usize;
    let out = &flat.ops;
    for (ii, op) in path.ops.iter().enumerate() {
        match op {
            PathOp::MoveTo(p) => {
                match out.get(oi) {
                    Some(PathOp::MoveTo(q)) if bits_eq(p, q) => {}
                    other => return Some(format!("input op #{} MoveTo {:?} appears as {:?} in the output", ii, p, other)),
                }
                oi += 1;
                cur = Some(pt(p));
                start = cur;
            }
            PathOp::LineTo(p) => {
                match out.get(oi) {
                    Some(PathOp::LineTo(q)) if bits_eq(p, q) => {}
                    other => return Some(format!("input op #{} LineTo {:?} appears as {:?} in the output", ii, p, other)),
                }
                oi += 1;
                if cur.is_none() {
                    start = Some(pt(p));
                }
                cur = Some(pt(p));
            }
            PathOp::Close => {
                match out.get(oi) {
                    Some(PathOp::Close) => {}
                    other => return Some(format!("input op #{} Close appears as {:?} in the output", ii, other)),
                }
                oi += 1;
                cur = start;
            }
            PathOp::QuadTo(..) | PathOp::CubicTo(..) => {
                let (first_ctrl, end, curve_of): (P, &Point, Box<dyn Fn(P) -> Curve>) = match op {
                    PathOp::QuadTo(c, p) => {
                        let (c2, p2) = (pt(c), pt(p));
                        (pt(c), p, Box::new(move |a: P| Curve::Quad(a, c2, p2)))
                    }
                    PathOp::CubicTo(c1, c2, p) => {
                        let (a1, a2, p2) = (pt(c1), pt(c2), pt(p));
                        (pt(c1), p, Box::new(move |a: P| Curve::Cubic(a, a1, a2, p2)))
                    }
                    _ => unreachable!(),
                };
                // the true starting point: the current point (after Close: the subpath start), else the first control point
                let a = cur.unwrap_or(first_ctrl);
                if cur.is_none() {
                    start = Some(a);
                }
                let curve = curve_of(a);
                // how many LineTo ops belong to this curve: the same curve flattened on its own from the true
                // start (this also asserts that a curve's polyline depends on nothing but the curve)
                let a32 = Point::new(a.x as f32, a.y as f32);
                let alone = Path { ops: vec![PathOp::MoveTo(a32), *op], winding: Winding::NonZero }.flatten(tol);
                let k = alone.ops.len().saturating_sub(1);
                let mut verts: Vec<Point> = Vec::new();
                for j in 0..k {
                    match (out.get(oi), alone.ops.get(j + 1)) {
                        (Some(PathOp::LineTo(q)), Some(PathOp::LineTo(q2))) if bits_eq(q, q2) => {
                            verts.push(*q);
                            oi += 1;
                        }
                        (o, o2) => {
                            return Some(format!("vertex #{} of the polyline of curve #{} is {:?}, but the same curve flattened on its own from its true start {:?} gives {:?}", j, ii, o, a32, o2));
                        }
                    }
                }
                if verts.is_empty() {
                    return Some(format!("input op #{} (a curve) was replaced by no LineTo at all", ii));
                }
                let last = verts[verts.len() - 1];
                if !bits_eq(&last, end) {
                    return Some(format!("the polyline of curve #{} ends at {:?}, not exactly at the curve's end point {:?}", ii, last, end));
                }
                let ctrl_pts: Vec<P> = match op {
                    PathOp::QuadTo(c, p) => vec![a, pt(c), pt(p)],
                    PathOp::CubicTo(c1, c2, p) => vec![a, pt(c1), pt(c2), pt(p)],
                    _ => unreachable!(),
                };
                // f32 evaluation error of the curve grows with the magnitude of its control points
                let scale = base + ctrl_pts.iter().map(|p| p.x.abs().max(p.y.abs())).fold(0., f64::max);
                let mut prev_t = -1e-9;
                let stride = (verts.len() / 48).max(1);
                for (vi, v) in verts.iter().enumerate() {
                    if vi % stride != 0 && vi + 1 != verts.len() {
                        continue;
                    }
                    let cands = curve.closest_candidates(pt(v));
                    st.add("curve_vertices_checked", 1);
                    let lim = tolf + slack * scale;
                    let on: Vec<&(f64, f64)> = cands.iter().filter(|c| c.0 <= lim).collect();
                    if on.is_empty() {
                        let best = cands.iter().cloned().fold((f64::INFINITY, 0.), |a, b| if b.0 < a.0 { b } else { a });
                        return Some(format!("vertex #{} {:?} of the polyline of curve #{} is {:.5} away from the curve (tolerance {})", vi, v, ii, best.0, tol));
                    }
                    // the curve may pass the same place more than once: take the earliest parameter that keeps the order
                    let slack = 2e-2;
                    let next = on.iter().map(|c| c.1).filter(|t| *t >= prev_t - slack).fold(f64::INFINITY, f64::min);
                    if !next.is_finite() {
                        let t = on.iter().map(|c| c.1).fold(f64::NEG_INFINITY, f64::max);
                        return Some(format!("vertices of the polyline of curve #{} are not in parameter order (t = {:.4} after {:.4})", ii, t, prev_t));
                    }
                    prev_t = prev_t.max(next);
                }
                // deviation of the polyline (from the true start) from the curve
                let mut poly: Vec<P> = vec![a];
                poly.extend(verts.iter().map(pt));
                let mut worst = 0f64;
                for k in 0..=256 {
                    let q = curve.at(k as f64 / 256.);
                    let mut d = f64::INFINITY;
                    for w in poly.windows(2) {
                        d = d.min(dist_to_segment(q, w[0], w[1]));
                    }
                    worst = worst.max(d);
                }
                st.max("max_deviation_over_tolerance", worst / tolf);
                if worst > 8. * tolf + slack * scale {
                    return Some(format!("the polyline of curve #{} (starting at the true start {:?}) deviates {:.5} from the curve, more than 8 x tolerance {}", ii, a, worst, tol));
                }
                st.add("curves_checked", 1);
                cur = Some(pt(end));
            }
        }
    }
    if oi != out.len() {
        return Some(format!("the output has {} extra ops", out.len() - oi));
    }
    None
}

pub fn run(ctx: &Ctx) -> Outcome {
    let mut out = Outcome::new(
        "random paths (1..10 ops in any order: curves first, after MoveTo, directly after Close, consecutive Closes, coincident control points, coordinates up to +-4000) and tolerances 1e-3..10: input and output ops are walked in lock-step: MoveTo/LineTo/Close preserved bit for bit and in order, every curve replaced by >= 1 LineTo whose vertices lie within tolerance of the true curve in parameter order, \
         the last one bit-identical to the end point, and whose polyline from the true starting point (after Close: the subpath start) deviates at most 8 x tolerance from the curve (256 samples). Cross-check: fill(path) and fill(path.flatten(0.01)) agree on pixels away from the outline. Non-trivial: the path contains a curve; distinct = hash of (path, tolerance).",
    );
    run_cases(ctx, &mut out, SubSpec { name: "flatten_lockstep", cases: ctx.n(60_000, 3_000_000), exhaustive: false, max_secs: if ctx.quick() { 40. } else { 900. } }, |i, want, st| {
        let mut rng = ctx.rng("flatten_lockstep", i);
        let mut path = gen_path(&mut rng);
        // now and then a curve millions of units away comes first: what it needs (a coarser tolerance out there,
        // a different subdivision) must not carry over to the curves after it
        if rng.chance(0.03) {
            let far = *rng.pick(&[1e5f32, 1e6, 1e7, -3e6]);
            let mut ops = vec![PathOp::MoveTo(Point::new(far, far)), PathOp::QuadTo(Point::new(far * 1.0001, far + far.abs() * 1e-4), Point::new(far + far.abs() * 2e-4, far)), PathOp::MoveTo(Point::new(0., 0.))];
            ops.extend(path.ops.iter().cloned());
            path = Path { ops, winding: path.winding };
        }
        let tol = *rng.pick(&[1e-3f32, 0.01, 0.05, 0.1, 0.25, 1.0, 3.0, 10.0]);
        let mut co = CaseOut::default();
        co.hash = crate::prng::hash_str(&format!("{:?}{}", path, tol));
        co.nontrivial = path.ops.iter().any(|o| matches!(o, PathOp::QuadTo(..) | PathOp::CubicTo(..)));
        if let Some(v) = check_flatten(&path, tol, st) {
            co.viol("C16", v);
        }
        if want || !co.violations.is_empty() {
            let mut d = J::obj();
            d.set("path", J::s(&path_str(&path)));
            d.set("tolerance", J::s(&fmt_f(tol)));
            co.desc = Some(d);
        }
        co
    });
    run_cases(ctx, &mut out, SubSpec { name: "fill_flattened_vs_original", cases: ctx.n(15_000, 400_000), exhaustive: false, max_secs: if ctx.quick() { 30. } else { 600. } }, |i, want, st| {
        let mut rng = ctx.rng("fill_flattened_vs_original", i);
        let w = rng.int(8, 40) as i32;
        let h = rng.int(8, 40) as i32;
        // paths on the surface
        let mut path = gen_path(&mut rng);
        // now and then the control points stay where they were generated (up to thousands of pixels away): fast
        // curves whose edges the rasteriser subdivides to its limit
        let far_controls = rng.chance(0.06);
        for op in path.ops.iter_mut() {
            let f = |p: &mut Point| {
                p.x = p.x.rem_euclid(w as f32 + 8.) - 4.;
                p.y = p.y.rem_euclid(h as f32 + 8.) - 4.;
            };
            match op {
                PathOp::MoveTo(p) | PathOp::LineTo(p) => f(p),
                PathOp::QuadTo(c, p) => {
                    if !far_controls {
                        f(c);
                    } else {
                        let far = |rng: &mut Rng| rng.range(2200., 3900.) as f32 * if rng.chance(0.5) { -1. } else { 1. };
                        match rng.below(3) {
                            0 => c.x = far(&mut rng),
                            1 => c.y = far(&mut rng),
                            _ => {
                                c.x = far(&mut rng);
                                c.y = far(&mut rng);
                            }
                        }
                    }
                    f(p)
                }
                PathOp::CubicTo(a, b, p) => {
                    if !far_controls {
                        f(a);
                        f(b);
                    }
                    f(p)
                }
                PathOp::Close => {}
            }
        }
        let mut flat = path.flatten(0.01);
        flat.winding = path.winding;
        let render = |p: &Path| -> Vec<u32> {
            let mut dt = DrawTarget::new(w, h);
            dt.fill(p, &Source::Solid(WHITE), &DrawOptions::new());
            dt.into_vec()
        };
        let (a, b) = (render(&path), render(&flat));
        let subs = subpaths(&path, if far_controls { 2048 } else { 128 });
        let mut co = CaseOut::default();
        co.hash = crate::prng::hash_str(&format!("{:?}{:?}", (w, h), path));
        let mut asserted = 0;
        for y in 0..h {
            for x in 0..w {
                let c = P::new(x as f64 + 0.5, y as f64 + 0.5);
                if dist_to_outline(&subs, c, true) > 1.5 + std::f64::consts::FRAC_1_SQRT_2 {
                    asserted += 1;
                    let k = (y * w + x) as usize;
                    if a[k] != b[k] {
                        co.viol("C16", format!("pixel ({},{}) is {} when the path is filled but {} when its flattening is filled", x, y, hex(a[k]), hex(b[k])));
                    }
                }
            }
        }
        st.add("fill_px_compared", asserted);
        // hit testing agrees too (points away from the outline)
        for _ in 0..4 {
            let q = P::new(rng.range(0., w as f64), rng.range(0., h as f64));
            if dist_to_outline(&subs, q, true) > 0.5 {
                st.add("hit_tests_compared", 1);
                if path.contains_point(0.01, q.x as f32, q.y as f32) != flat.contains_point(0.01, q.x as f32, q.y as f32) {
                    co.viol("C16", format!("contains_point({:.3},{:.3}) differs between the path and its flattening", q.x, q.y));
                }
            }
        }
        co.nontrivial = asserted > 0 && path.ops.iter().any(|o| matches!(o, PathOp::QuadTo(..) | PathOp::CubicTo(..)));
        if want || !co.violations.is_empty() {
            let mut d = J::obj();
            d.set("surface", J::s(&format!("{}x{}", w, h)));
            d.set("path", J::s(&path_str(&path)));
            co.desc = Some(d);
        }
        co
    });
    // tiny geometry at tiny tolerances (what stroking under a magnification of a million asks of flatten):
    // the deviation bound is relative to the tolerance, whatever its size
    run_cases(ctx, &mut out, SubSpec { name: "tiny_geometry_at_tiny_tolerances", cases: ctx.n(1_500, 40_000), exhaustive: false, max_secs: 60. }, |i, want, st| {
        let mut rng = ctx.rng("tiny_geometry_at_tiny_tolerances", i);
        // the usual paths, shrunk: coordinates up to 4000 become a few thousandths of a unit, where f32 resolves 1e-10
        let unit = *rng.pick(&[5e-7f32, 2e-7, 1e-7]);
        let base = gen_path(&mut rng);
        let path = base.transform(&Transform::scale(unit, unit));
        let tol = *rng.pick(&[1e-8f32, 2e-8, 5e-8, 1e-7, 1.2e-7, 3e-7, 1e-6]);
        let mut co = CaseOut::default();
        co.hash = crate::prng::hash_str(&format!("{:?}{}", path, tol));
        co.nontrivial = path.ops.iter().any(|o| matches!(o, PathOp::QuadTo(..) | PathOp::CubicTo(..)));
        st.add(&format!("tolerance:{:e}", tol), 1);
        // (geometry of a few thousandths of a unit: the f32 evaluation of the curve is good to 1e-9 there)
        if let Some(v) = check_flatten_with(&path, tol, st, 1e-6, 0.) {
            co.viol("C16", v);
        }
        if want || !co.violations.is_empty() {
            let mut d = J::obj();
            d.set("path", J::s(&path_str(&path)));
            d.set("tolerance", J::s(&format!("{:e}", tol)));
            co.desc = Some(d);
        }
        co
    });
    // one long curve at a tolerance that needs thousands of segments: the polyline must still run all the way
    // (structural checks only: at this size/tolerance ratio f32 evaluation of the curve is coarser than the tolerance)
    run_cases(ctx, &mut out, SubSpec { name: "curves_needing_thousands_of_segments", cases: ctx.n(40, 1_000), exhaustive: false, max_secs: 120. }, |i, want, st| {
        let mut rng = ctx.rng("curves_needing_thousands_of_segments", i);
        let size = rng.range(500., 3500.) as f32;
        let a = Point::new(rng.range(-200., 200.) as f32, rng.range(-200., 200.) as f32);
        let p = |rng: &mut Rng| Point::new(a.x + rng.range(-1., 1.) as f32 * size, a.y + rng.range(-1., 1.) as f32 * size);
        let end = Point::new(a.x + size, a.y + rng.range(-0.5, 0.5) as f32 * size);
        let curve = if rng.chance(0.5) { PathOp::QuadTo(p(&mut rng), end) } else { PathOp::CubicTo(p(&mut rng), p(&mut rng), end) };
        let after = Point::new(a.x, a.y + size);
        let path = Path { ops: vec![PathOp::MoveTo(a), curve, PathOp::LineTo(after)], winding: Winding::NonZero };
        let tol = *rng.pick(&[1e-5f32, 2e-5, 5e-6, 1e-4]);
        let flat = path.flatten(tol);
        let mut co = CaseOut::default();
        co.hash = crate::prng::hash_str(&format!("{:?}{}", path, tol));
        co.nontrivial = true;
        let pts: Vec<Point> = flat.ops.iter().filter_map(|o| match o { PathOp::MoveTo(p) | PathOp::LineTo(p) => Some(*p), _ => None }).collect();
        st.max("most_vertices_in_one_polyline", pts.len() as f64);
        st.add("vertices", pts.len() as u64);
        let bits = |p: Point| (p.x.to_bits(), p.y.to_bits());
        if flat.ops.iter().any(|o| matches!(o, PathOp::QuadTo(..) | PathOp::CubicTo(..))) || pts.len() < 3 {
            co.viol("C16", "the flattened path still contains a curve or lost its ops".to_string());
        } else if bits(pts[0]) != bits(a) || bits(pts[pts.len() - 1]) != bits(after) || bits(pts[pts.len() - 2]) != bits(end) {
            co.viol("C16", format!("the polyline of the curve does not end exactly at the curve's end point {:?}: the vertex before the following LineTo is {:?} ({} vertices, tolerance {})", end, pts[pts.len() - 2], pts.len(), tol));
        } else {
            // no chord of the curve's polyline is long: it has not skipped a stretch of the curve
            let mut longest: f64 = 0.;
            for k in 1..pts.len() - 1 {
                longest = longest.max(((pts[k].x - pts[k - 1].x) as f64).hypot((pts[k].y - pts[k - 1].y) as f64));
            }
            st.max("longest_chord_over_size", longest / size as f64);
            if pts.len() > 1000 && longest > 0.05 * size as f64 {
                co.viol("C16", format!("a polyline of {} vertices contains a chord of {:.1} units on a curve of extent {}: part of the curve was skipped", pts.len(), longest, size));
            }
        }
        if want || !co.violations.is_empty() {
            let mut d = J::obj();
            d.set("path", J::s(&path_str(&path)));
            d.set("tolerance", J::s(&fmt_f(tol)));
            co.desc = Some(d);
        }
        co
    });
    out.assume("a vertex counts as on the curve when it is within tolerance + 1e-4 x coordinate scale of it (cubics are flattened through quadratic approximations whose points are within the tolerance of the cubic)");
    out.assume("flatten() returns a NonZero path whatever the input's winding rule; the statement is about ops and geometry, so comparisons copy the winding");
    out
}

#[cfg(test)]
mod tests {
    use super::*;
    #[test]
    fn closest_on_large_cubic() {
        let c = Curve::Cubic(P::new(40.131092, 10.811153), P::new(2597.1414, 26.096544), P::new(-13.7481365, 47.0), P::new(0., 0.));
        let (d, t) = c.closest_candidates(P::new(44.023514, 10.834451)).into_iter().fold((f64::INFINITY, 0.), |a, b| if b.0 < a.0 { b } else { a });
        println!("d={} t={}", d, t);
        assert!(d < 1e-3);
    }
}
