//! C13 - image sources show the texel under the pixel centre (pad/repeat, filter, alpha).
//!
//! Oracle: f64 reference sampler. X = M(pixel centre), M = inverse current transform then the
//! source transform. Nearest: texel (floor X.x, floor X.y) after Pad clamp / Repeat wrap, exactly.
//! Bilinear: the 4-bit-weighted interpolation of the four texels around X - 0.5. Samples within
//! the fixed-point conversion error of a texel / weight boundary accept either neighbour.

use crate::gen::*;
use crate::json::J;
use crate::prng::Rng;
use crate::runner::*;
use crate::scene::{opacity_byte, probe_source_checked, ProbeFail};
use crate::util::*;
use raqote::*;

fn wrap(i: i64, n: i64, repeat: bool) -> i64 {
    if repeat {
        i.rem_euclid(n)
    } else {
        i.clamp(0, n - 1)
    }
}

pub struct ImgCase {
    pub w: i32,
    pub h: i32,
    pub iw: i32,
    pub ih: i32,
    pub data: Vec<u32>,
    pub repeat: bool,
    pub bilinear: bool,
    pub src_t: Transform,
    pub ctm: Transform,
    pub alpha: f32,
    /// multiplier on the ambiguity band (1 for this check's own transform families)
    pub slack: f64,
}

pub struct ImgResult {
    pub asserted: u64,
    pub ambiguous: u64,
    pub exact_asserted: u64,
    pub violation: Option<String>,
}

fn is_exact_integer_translation(m: &T64) -> bool {
    m.a == 1. && m.b == 0. && m.c == 0. && m.d == 1. && m.e == m.e.trunc() && m.f == m.f.trunc()
}

/// candidates (floor value, 4-bit weight) for a coordinate v known up to +-e
fn weight_candidates(v: f64, e: f64) -> Vec<(i64, i64)> {
    let mut out: Vec<(i64, i64)> = Vec::new();
    for d in [0., -e, e] {
        let x = v + d;
        let f = x.floor();
        let w = ((x - f) * 16.).floor() as i64;
        let c = (f as i64, w.clamp(0, 15));
        if !out.contains(&c) {
            out.push(c);
        }
    }
    out
}

pub fn check_image(c: &ImgCase, pixels: &[u32], region: Option<(i32, i32, i32, i32)>) -> ImgResult {
    let inv = T64::from(&c.ctm).inverse().expect("invertible");
    let m = inv.then(&T64::from(&c.src_t));
    // pixel -> image space is exactly an integer translation (in f64 and in the f32 product the library
    // can form): everything is exact and whichever path the library takes must return the exact texel
    let f32_product_exact = c.ctm.inverse().map(|ti| is_exact_integer_translation(&T64::from(&ti.then(&c.src_t)))).unwrap_or(false);
    let exact_m = is_exact_integer_translation(&m) && f32_product_exact;
    let ab = opacity_byte(c.alpha) as f64;
    let texel = |x: i64, y: i64| -> u32 { c.data[(wrap(y, c.ih as i64, c.repeat) * c.iw as i64 + wrap(x, c.iw as i64, c.repeat)) as usize] };
    let mut res = ImgResult { asserted: 0, ambiguous: 0, exact_asserted: 0, violation: None };
    let mag = m.a.abs() + m.b.abs() + m.c.abs() + m.d.abs();
    let (rx0, ry0, rx1, ry1) = region.unwrap_or((0, 0, c.w, c.h));
    for py in ry0.max(0)..ry1.min(c.h) {
        for px in rx0.max(0)..rx1.min(c.w) {
            let (xx, yy) = m.apply(px as f64 + 0.5, py as f64 + 0.5);
            // conversion of the matrix to 16.16 (each entry rounded to 2^-17) and f32 composition error
            // a pure translation by multiples of 2^-16 is carried through the fixed-point pipeline exactly,
            // except for the conversion's bias of at most 2^-16 towards larger coordinates
            let dyadic = |v: f64| (v * 65536.).fract() == 0. && v.abs() < 30000.;
            let pure_translation = m.a == 1. && m.b == 0. && m.c == 0. && m.d == 1. && dyadic(m.e) && dyadic(m.f) && c.ctm.m11 == 1. && c.ctm.m22 == 1. && c.ctm.m12 == 0. && c.ctm.m21 == 0. && c.src_t.m11 == 1. && c.src_t.m22 == 1. && c.src_t.m12 == 0. && c.src_t.m21 == 0.;
            let near_top = |v: f64| v - v.floor() > 1. - 4. / 65536.;
            let e = if exact_m || (pure_translation && !c.bilinear && !near_top(xx) && !near_top(yy)) {
                0.
            } else {
                c.slack * ((px + py + 2) as f64 / 65536. + 8e-6 * (1. + xx.abs() + yy.abs() + mag * (px + py) as f64))
            };
            let obs = pixels[(py * c.w + px) as usize];
            let oc = ch(obs);
            let mut ok = false;
            let mut exp_desc = String::new();
            if !c.bilinear {
                let xs: Vec<i64> = { let mut v = vec![xx.floor() as i64]; for d in [-e, e] { let f = (xx + d).floor() as i64; if !v.contains(&f) { v.push(f) } } v };
                let ys: Vec<i64> = { let mut v = vec![yy.floor() as i64]; for d in [-e, e] { let f = (yy + d).floor() as i64; if !v.contains(&f) { v.push(f) } } v };
                if xs.len() > 1 || ys.len() > 1 {
                    res.ambiguous += 1;
                }
                for &tx in &xs {
                    for &ty in &ys {
                        let t = texel(tx, ty);
                        let tc = ch(t);
                        let good = if ab == 255. {
                            obs == t
                        } else if ab == 0. {
                            obs == 0
                        } else {
                            (0..4).all(|k| (oc[k] as f64 - tc[k] as f64 * ab / 255.).abs() <= 1.0)
                        };
                        ok |= good;
                        if exp_desc.is_empty() {
                            exp_desc = format!("texel ({},{}) = {}", wrap(tx, c.iw as i64, c.repeat), wrap(ty, c.ih as i64, c.repeat), hex(t));
                        }
                    }
                }
                if xs.len() == 1 && ys.len() == 1 && ab == 255. {
                    res.exact_asserted += 1;
                }
            } else {
                let cx = weight_candidates(xx - 0.5, e);
                let cy = weight_candidates(yy - 0.5, e);
                if cx.len() > 1 || cy.len() > 1 {
                    res.ambiguous += 1;
                }
                for &(x1, wx) in &cx {
                    for &(y1, wy) in &cy {
                        let (tl, tr, bl, br) = (ch(texel(x1, y1)), ch(texel(x1 + 1, y1)), ch(texel(x1, y1 + 1)), ch(texel(x1 + 1, y1 + 1)));
                        let mut good = true;
                        let mut vals = [0f64; 4];
                        for k in 0..4 {
                            let v = (tl[k] as f64 * ((16 - wx) * (16 - wy)) as f64 + tr[k] as f64 * (wx * (16 - wy)) as f64 + bl[k] as f64 * ((16 - wx) * wy) as f64 + br[k] as f64 * (wx * wy) as f64) / 256.;
                            vals[k] = v * ab / 255.;
                            let tol = if ab == 255. { 1.0 } else { 2.0 };
                            good &= (oc[k] as f64 - vals[k]).abs() <= tol;
                            // always within the per-channel range of the four texels
                            let (mn, mx) = ([tl[k], tr[k], bl[k], br[k]].iter().cloned().min().unwrap() as f64, [tl[k], tr[k], bl[k], br[k]].iter().cloned().max().unwrap() as f64);
                            good &= oc[k] as f64 >= (mn * ab / 255.).floor() - 1. && oc[k] as f64 <= (mx * ab / 255.).ceil() + 1.;
                        }
                        if wx == 0 && wy == 0 && ab == 255. {
                            // exactly on a texel centre: the texel itself
                            good &= obs == texel(x1, y1);
                        }
                        ok |= good;
                        if exp_desc.is_empty() {
                            exp_desc = format!("weights ({},{})/16 around texel ({},{}): about [{:.1},{:.1},{:.1},{:.1}]", wx, wy, x1, y1, vals[0], vals[1], vals[2], vals[3]);
                        }
                    }
                }
                if cx.len() == 1 && cy.len() == 1 && cx[0].1 == 0 && cy[0].1 == 0 && ab == 255. {
                    res.exact_asserted += 1;
                }
            }
            res.asserted += 1;
            if !ok && res.violation.is_none() {
                res.violation = Some(format!("pixel ({},{}) = {} but the image-space position is ({:.4},{:.4}) -> expected {} (alpha byte {}, {} {})", px, py, hex(obs), xx, yy, exp_desc, ab, if c.repeat { "Repeat" } else { "Pad" }, if c.bilinear { "Bilinear" } else { "Nearest" }));
            }
        }
    }
    res
}

/// an image whose texel values encode their position (a wrong texel cannot hide)
pub fn probe_image(rng: &mut Rng, iw: i32, ih: i32) -> Vec<u32> {
    let mut v = Vec::with_capacity((iw * ih) as usize);
    for j in 0..ih {
        for i in 0..iw {
            let a = if rng.chance(0.7) { 255 } else { 128 + rng.below(128) as u32 };
            let r = (17 + i as u32 * 29) % (a + 1);
            let g = (5 + j as u32 * 37) % (a + 1);
            let b = ((i + j * iw) as u32 * 13 + 1) % (a + 1);
            v.push(pack(a, r, g, b));
        }
    }
    v
}

/// one translation component: integers, halves, quarters and arbitrary fractions, chosen per axis so that
/// every combination (integer x with fractional y, equal integer parts, ...) occurs
fn axis(rng: &mut Rng, range: i64) -> f32 {
    match rng.below(8) {
        0 => 0.,
        1 => rng.int(-range, range) as f32,
        2 => rng.int(-range, range) as f32 + 0.5,
        3 => *rng.pick(&[-0.5f32, 0.5, -0.25, 0.75, -1.75, 1.25, 0.999, -0.001]),
        4 => rng.int(-3, 3) as f32,
        _ => rng.range(-(range as f64), range as f64) as f32,
    }
}

pub fn gen_case(rng: &mut Rng) -> ImgCase {
    let w = rng.int(2, 24) as i32;
    let h = rng.int(2, 24) as i32;
    let iw = rng.int(1, 9) as i32;
    let ih = rng.int(1, 7) as i32;
    let data = probe_image(rng, iw, ih);
    let (cx, cy) = (w as f32 / 2., h as f32 / 2.);
    let src_t = match rng.below(9) {
        0 => Transform::identity(),
        1 => Transform::translation(rng.int(-12, 12) as f32, rng.int(-12, 12) as f32),
        2 => Transform::translation(axis(rng, 12), axis(rng, 12)),
        3 => Transform::scale(rng.range(0.2, 3.) as f32, rng.range(0.2, 3.) as f32),
        4 => Transform::scale(-rng.range(0.5, 2.) as f32, rng.range(0.5, 2.) as f32).then_translate(euclid::vec2(rng.range(0., 8.) as f32, 0.)),
        5 => Transform::rotation(euclid::Angle::radians(rng.range(0., 6.28) as f32)).then_translate(euclid::vec2(rng.range(-4., 8.) as f32, rng.range(-4., 8.) as f32)),
        6 => Transform::translation(rng.int(-3, 3) as f32 + 0.5, rng.int(-3, 3) as f32 + 0.5),
        7 if rng.chance(0.7) => Transform::translation(rng.range(-200., 200.) as f32, rng.range(-200., 200.) as f32), // far beyond every edge
        7 => {
            // whole-number translations in the millions (exact in f32): a repeated image is still in phase there
            let far = |rng: &mut Rng| -> f32 {
                match rng.below(4) {
                    0 => rng.int(-12, 12) as f32,
                    1 => (rng.int(1 << 20, 1 << 24) * if rng.chance(0.5) { 1 } else { -1 }) as f32,
                    2 => ((1i64 << 20) + rng.int(-3, 3)) as f32 * if rng.chance(0.5) { 1. } else { -1. },
                    _ => (rng.int(30000, 70000) * if rng.chance(0.5) { 1 } else { -1 }) as f32,
                }
            };
            Transform::translation(far(rng), far(rng))
        }
        _ => Transform::scale(0.5, 0.5).then_translate(euclid::vec2(0.25, 0.25)),
    };
    // exact mirror images with whole translations (a y-up user space, a flipped image)
    let flip = |rng: &mut Rng, w: i32, h: i32| -> Transform {
        let (sx, sy) = *rng.pick(&[(1.0f32, -1.0f32), (-1., 1.), (-1., -1.)]);
        Transform::scale(sx, sy).then_translate(euclid::vec2(if sx < 0. { rng.int(1, w as i64 + 2) as f32 } else { rng.int(-2, 2) as f32 }, if sy < 0. { rng.int(1, h as i64 + 2) as f32 } else { rng.int(-2, 2) as f32 }))
    };
    let src_t = if rng.chance(0.04) { flip(rng, iw, ih) } else { src_t };
    let ctm = match rng.below(9) {
        _ if rng.chance(0.04) => flip(rng, w, h),
        8 => special_transform(rng, w as f64, h as f64),
        0 | 1 | 2 | 3 => Transform::identity(),
        4 => Transform::translation(rng.int(-6, 6) as f32, rng.int(-6, 6) as f32),
        5 => Transform::translation(axis(rng, 6), axis(rng, 6)),
        6 => Transform::translation(-cx, -cy).then_rotate(euclid::Angle::radians(rng.range(0., 6.28) as f32)).then_translate(euclid::vec2(cx, cy)),
        _ => Transform::translation(-cx, -cy).then_scale(rng.range(0.5, 3.) as f32, rng.range(0.5, 3.) as f32).then_translate(euclid::vec2(cx, cy)),
    };
    // (whole-number translations in the millions are for the whole-number route only: everywhere else image
    // coordinates have to stay within the 16.16 range)
    let far_int = src_t.m31.abs() > 20000. || src_t.m32.abs() > 20000.;
    let ctm = if far_int { if rng.chance(0.5) { Transform::identity() } else { Transform::translation(rng.int(-6, 6) as f32, rng.int(-6, 6) as f32) } } else { ctm };
    let alpha = match rng.below(5) {
        0 => 0.3,
        1 => 0.0,
        2 => rng.f64() as f32,
        _ => 1.0,
    };
    // wide surfaces under a strongly minifying current transform with a large compensating translation in the
    // source transform: the image coordinates stay small, the partial products in 16.16 do not
    let (w, h, src_t, ctm) = if rng.chance(0.03) && !far_int {
        // (device pixel px sees image x = px * k + off: the span px * k passes 32768, every sum stays within +-30000)
        let k = *rng.pick(&[64.0f32, 128.]);
        let w2 = (rng.int(36000, 58000) as f32 / k) as i32;
        let off = -((w2 as f32 * k) / 2.).round() + rng.int(-40, 40) as f32;
        (w2, rng.int(1, 2) as i32, Transform::translation(off, rng.int(-3, 3) as f32), Transform::scale(1. / k, 1.))
    } else {
        (w, h, src_t, ctm)
    };
    // surfaces wider than any scratch buffer a span blitter may work through in pieces: the image stretched over
    // the whole width, or repeated along it
    let (w, h, src_t, ctm) = if rng.chance(0.03) && !far_int {
        let w2 = *rng.pick(&[257i32, 300, 511, 513, 640, 1025]) + rng.int(0, 40) as i32;
        let st = if rng.chance(0.5) { Transform::scale(iw as f32 / w2 as f32, 1.) } else { Transform::translation(rng.int(-5, 5) as f32, 0.) };
        (w2, rng.int(1, 3) as i32, st, Transform::identity())
    } else {
        (w, h, src_t, ctm)
    };
    // a family of its own: the source transform cancels the current transform's linear part, so that
    // pixel -> image space is a pure translation although neither transform is one
    let (src_t, ctm) = if rng.chance(0.15) && !far_int {
        // (also strongly minifying and magnifying current transforms: the image stays the same size on the device)
        let tiny = rng.chance(0.2);
        let s = |rng: &mut Rng| if tiny { *rng.pick(&[1.0f32 / 4096., 1.0 / 8192., 1.0 / 16384., 2048., 1.0 / 1024.]) } else { *rng.pick(&[0.5f32, 2.0, 4.0, 0.25, -1.0, 1.0]) };
        let c = Transform::scale(s(rng), s(rng)).then_translate(euclid::vec2(rng.int(-4, 4) as f32, rng.int(-4, 4) as f32));
        (c.then_translate(euclid::vec2(axis(rng, 8), axis(rng, 8))), c)
    } else {
        (src_t, ctm)
    };
    // now and then the pixel slice is longer than width x height (a view into a larger buffer): the rest is not part of the image
    let mut data = data;
    if rng.chance(0.05) {
        for k in 0..rng.int(1, 2 * iw as i64 + 3) {
            data.push(0xff00ff00 ^ (k as u32 * 0x00010305));
        }
    }
    ImgCase { w, h, iw, ih, data, repeat: rng.chance(0.5), bilinear: rng.chance(0.5), src_t, ctm, alpha, slack: 1. }
}

pub fn case_desc(c: &ImgCase) -> J {
    let mut d = J::obj();
    d.set("surface", J::s(&format!("{}x{}", c.w, c.h)));
    d.set("image", J::s(&format!("{}x{} {} {}", c.iw, c.ih, if c.repeat { "Repeat" } else { "Pad" }, if c.bilinear { "Bilinear" } else { "Nearest" })));
    d.set("data", pixels_json(&c.data));
    d.set("source_transform", J::s(&transform_str(&c.src_t)));
    d.set("transform", J::s(&transform_str(&c.ctm)));
    d.set("alpha", J::s(&fmt_f(c.alpha)));
    d
}

pub fn run(ctx: &Ctx) -> Outcome {
    let mut out = Outcome::new(
        "random images (1x1..9x7, position-encoding texels), both extend modes, both filters, alpha in [0,1], source transforms (identity, integer/fractional/half-texel translations, scales incl. negative, rotations, far beyond every edge) and current transforms (identity, translations, rotation, scale); \
         the per-pixel source colour observed with a full-surface Src fill is compared with the f64 reference sampler at M(pixel centre): Nearest = exactly the texel (floor x, floor y) after clamp/wrap (times the alpha byte within 1), Bilinear = the 4-bit-weighted interpolation of the four texels around (x-0.5, y-0.5) within 1 LSB (2 with alpha), inside their range, exactly the texel at texel centres; \
         draw_image_at puts texel (i,j) on pixel (x+i,y+j), draw_image_with_size_at stretches the image over the rectangle. Samples within the 16.16 conversion error of a boundary accept either neighbour (counted). Non-trivial: at least two distinct colours observed; distinct = hash of the case.",
    );
    let secs = if ctx.quick() { 40. } else { 900. };
    run_cases(ctx, &mut out, SubSpec { name: "image_sources", cases: ctx.n(60_000, 1_000_000), exhaustive: false, max_secs: secs }, |i, want, st| {
        let mut rng = ctx.rng("image_sources", i);
        let c = gen_case(&mut rng);
        let mut co = CaseOut::default();
        co.hash = crate::prng::hash_str(&format!("{:?}{}{}{:?}{:?}{}{:?}", (c.w, c.h, c.iw, c.ih), c.repeat, c.bilinear, c.src_t, c.ctm, c.alpha, c.data));
        let spec = SrcSpec::Image { w: c.iw, h: c.ih, data: c.data.clone(), repeat: c.repeat, bilinear: c.bilinear, transform: c.src_t };
        let pixels = match probe_source_checked(c.w, c.h, &c.ctm, &spec, c.alpha) {
            Ok(p) => p,
            Err(ProbeFail::OutOfRange) => {
                st.add("cases_source_not_observable", 1);
                return co;
            }
            Err(ProbeFail::NotCovered(x, y, cov)) => {
                co.viol("C13", format!("filling a rectangle that contains the whole surface with 3 px to spare leaves pixel ({},{}) with coverage {} under the current transform {}", x, y, cov, transform_str(&c.ctm)));
                co.desc = Some(case_desc(&c));
                return co;
            }
        };
        let res = check_image(&c, &pixels, None);
        st.add("px_asserted", res.asserted);
        st.add("px_on_a_boundary_either_neighbour_accepted", res.ambiguous);
        st.add("px_exact_texel_asserted", res.exact_asserted);
        st.add(&format!("{}:{}:{}", if c.repeat { "Repeat" } else { "Pad" }, if c.bilinear { "Bilinear" } else { "Nearest" }, if opacity_byte(c.alpha) == 255 { "opaque" } else { "alpha" }), 1);
        let distinct: std::collections::HashSet<u32> = pixels.iter().cloned().collect();
        co.nontrivial = distinct.len() >= 2;
        if let Some(v) = res.violation {
            co.viol("C13", v);
        }
        if want || !co.violations.is_empty() {
            co.desc = Some(case_desc(&c));
        }
        co
    });

    run_cases(ctx, &mut out, SubSpec { name: "draw_image_calls", cases: ctx.n(40_000, 600_000), exhaustive: false, max_secs: secs / 2. }, |i, want, st| {
        let mut rng = ctx.rng("draw_image_calls", i);
        // (one case in 700 on a surface 33000..70000 px long in one direction, the image placed beyond pixel 32760)
        let huge = i % 700 == 3;
        let huge_wide = rng.chance(0.5);
        let w = if huge && huge_wide { rng.int(33000, 70000) as i32 } else if huge { rng.int(1, 2) as i32 } else { rng.int(2, 24) as i32 };
        let h = if huge && !huge_wide { rng.int(33000, 70000) as i32 } else if huge { rng.int(1, 2) as i32 } else { rng.int(2, 24) as i32 };
        let iw = rng.int(1, 8) as i32;
        let ih = rng.int(1, 8) as i32;
        let data = probe_image(&mut rng, iw, ih);
        let img = Image { width: iw, height: ih, data: &data[..] };
        let sized = rng.chance(0.5) && !huge;
        let mut dt = DrawTarget::new(w, h);
        // sometimes under a power-of-two scale that the requested size cancels again
        let k = if sized && rng.chance(0.3) { *rng.pick(&[2.0f32, 0.5, 4.0]) } else { 1.0 };
        let ctm = if k != 1.0 { Transform::scale(k, k) } else { Transform::identity() };
        dt.set_transform(&ctm);
        let o = opts(BlendMode::Src, 1., true);
        let mut co = CaseOut::default();
        let (x, y, rw, rh);
        if sized {
            if k != 1.0 {
                // user-space size iw/k, ih/k: device size iw x ih, integer or fractional position
                x = if rng.chance(0.5) { rng.int(-2, 6) as f32 } else { axis(&mut rng, 4) };
                y = if rng.chance(0.5) { rng.int(-2, 6) as f32 } else { axis(&mut rng, 4) };
                rw = iw as f32 / k;
                rh = ih as f32 / k;
            } else {
                x = rng.range(-4., w as f64 - 1.) as f32;
                y = rng.range(-4., h as f64 - 1.) as f32;
                rw = rng.range(1., 2. * w as f64) as f32;
                rh = rng.range(1., 2. * h as f64) as f32;
            }
            dt.draw_image_with_size_at(rw, rh, x, y, &img, &o);
        } else {
            // integer positions mostly (the statement's texel placement), but also fractional ones per axis
            x = if huge && huge_wide { rng.int(32760, w as i64 - 1) as f32 } else if huge { rng.int(-2, 1) as f32 } else if rng.chance(0.7) { rng.int(-6, w as i64) as f32 } else { axis(&mut rng, 6) };
            y = if huge && !huge_wide { rng.int(32760, h as i64 - 1) as f32 } else if huge { rng.int(-2, 1) as f32 } else if rng.chance(0.7) { rng.int(-6, h as i64) as f32 } else { axis(&mut rng, 6) };
            if huge {
                st.add("draw_image_at_beyond_pixel_32760", 1);
            }
            rw = iw as f32;
            rh = ih as f32;
            dt.draw_image_at(x, y, &img, &o);
        }
        co.hash = crate::prng::hash_str(&format!("{:?}{:?}{}", (w, h, iw, ih, x, y, rw, rh), data, sized));
        let pixels = dt.get_data().to_vec();
        // pixels whose square lies inside the rectangle have full coverage: Src stores the shader output
        let (rx0, ry0, rx1, ry1) = ((x * k).ceil() as i32, (y * k).ceil() as i32, ((x + rw) * k).floor() as i32, ((y + rh) * k).floor() as i32);
        let c = ImgCase { w, h, iw, ih, data: data.clone(), repeat: false, bilinear: true, src_t: Transform::translation(-x, -y).then_scale(iw as f32 / rw, ih as f32 / rh), ctm, alpha: 1., slack: 1. };
        let res = check_image(&c, &pixels, Some((rx0, ry0, rx1, ry1)));
        st.add("px_asserted", res.asserted);
        st.add(if sized { "draw_image_with_size_at" } else { "draw_image_at" }, 1);
        co.nontrivial = res.asserted >= 2;
        if let Some(v) = res.violation {
            co.viol("C13", format!("{}: {}", if sized { "draw_image_with_size_at" } else { "draw_image_at" }, v));
        }
        if !sized && x == x.trunc() && y == y.trunc() {
            // the statement for draw_image_at, directly
            for j in 0..ih {
                for i2 in 0..iw {
                    let (px, py) = (x as i32 + i2, y as i32 + j);
                    if px >= 0 && px < w && py >= 0 && py < h {
                        st.add("draw_image_at_texels_asserted", 1);
                        if pixels[(py * w + px) as usize] != data[(j * iw + i2) as usize] {
                            co.viol("C13", format!("draw_image_at({},{}): pixel ({},{}) = {} but texel ({},{}) = {}", x, y, px, py, hex(pixels[(py * w + px) as usize]), i2, j, hex(data[(j * iw + i2) as usize])));
                        }
                    }
                }
            }
        }
        // everything outside the rectangle (grown by a pixel) is untouched
        for py in 0..h {
            for px in 0..w {
                let outside = (px as f32 + 1.) <= x * k - 0.01 || (px as f32) >= (x + rw) * k + 0.01 || (py as f32 + 1.) <= y * k - 0.01 || (py as f32) >= (y + rh) * k + 0.01;
                if outside && pixels[(py * w + px) as usize] != 0 {
                    co.viol("C13", format!("pixel ({},{}) outside the image rectangle was painted", px, py));
                }
            }
        }
        if want || !co.violations.is_empty() {
            let mut d = J::obj();
            d.set("surface", J::s(&format!("{}x{}", w, h)));
            d.set("call", J::s(&format!("{} at ({},{}) size {}x{} image {}x{}", if sized { "draw_image_with_size_at" } else { "draw_image_at" }, x, y, rw, rh, iw, ih)));
            d.set("data", pixels_json(&data));
            co.desc = Some(d);
        }
        co
    });
    out.assume("conversion error band per sample: (x+y+2) * 2^-16 plus 4e-6 relative for the f32 matrix composition; zero for exact integer translations under the identity transform (the integer fast paths must return the exact texel)");
    out
}
