//! C11 - the current transform acts on geometry and sources as one user space.
//!
//! (a) exact differential: fill(path, solid) under T vs fill(path.transform(T)) under the identity;
//! (b) sources: the C12/C13 oracles evaluated at T^-1 of the pixel centre (run from c12/c13 with random T);
//! (c) strokes: the C04 region mapped by T (run from c04 with random T);
//! (d) a non-invertible T draws nothing; (e) device-space calls ignore T; (f) clear/pop_layer leave T alone.

use crate::gen::*;
use crate::json::J;
use crate::ops::*;
use crate::prng::Rng;
use crate::runner::*;
use crate::scene::bitwise_eq;
use crate::util::*;
use raqote::*;

fn any_transform(rng: &mut Rng, w: f64, h: f64) -> Transform {
    match rng.below(10) {
        0 => Transform::translation(rng.int(-5, 5) as f32, rng.int(-5, 5) as f32),
        1 => Transform::translation(rng.range(-5., 5.) as f32, rng.range(-5., 5.) as f32),
        2 => Transform::scale(rng.range(0.05, 6.) as f32, rng.range(0.05, 6.) as f32),
        3 => Transform::new(rng.range(-2., 2.) as f32, rng.range(-2., 2.) as f32, rng.range(-2., 2.) as f32, rng.range(-2., 2.) as f32, rng.range(-4., w + 4.) as f32, rng.range(-4., h + 4.) as f32),
        _ => random_transform(rng, w, h),
    }
}

fn singular_transform(rng: &mut Rng) -> Transform {
    match rng.below(5) {
        0 => Transform::scale(0., 0.),
        1 => Transform::scale(1., 0.),
        2 => Transform::scale(0., 2.),
        3 => Transform::new(1., 2., 2., 4., rng.range(-3., 3.) as f32, 1.),
        _ => Transform::new(0.5, 0.25, 1., 0.5, 2., rng.range(-3., 3.) as f32),
    }
}

pub fn run(ctx: &Ctx) -> Outcome {
    let mut out = Outcome::new(
        "(a) fill(path, solid) under a transform T vs fill(Path::transform(T)) under the identity on identical canary destinations, all op kinds, both AA modes, optionally under clips and inside a layer: bit-identical; \
         (d) fill/stroke/fill_rect/draw_image under a singular T leave every pixel unchanged; (e) push_clip_rect, mask (solid source), copy_surface, blend_surface give identical pixels under the identity and under T; \
         (f) clear and pop_layer leave get_transform() bitwise unchanged. Sources under T are decided by the C12/C13 oracles, strokes under T by the C04 region oracle (both draw random transforms). Non-trivial: the render changed at least one pixel and left one unchanged.",
    );
    let secs = if ctx.quick() { 25. } else { 600. };
    run_cases(ctx, &mut out, SubSpec { name: "pretransformed_path_differential", cases: ctx.n(200_000, 3_000_000), exhaustive: false, max_secs: secs }, |i, want, st| {
        let mut rng = ctx.rng("pretransformed_path_differential", i);
        let w = rng.int(1, 20) as i32;
        let h = rng.int(1, 20) as i32;
        let n = (w * h) as usize;
        let init = canary(&mut rng, n);
        let t = if rng.chance(0.05) { singular_transform(&mut rng) } else { any_transform(&mut rng, w as f64, h as f64) };
        let curves = rng.chance(0.6);
        let path = if rng.chance(0.2) { small_shape(&mut rng, w, h) } else { random_path(&mut rng, w, h, curves) };
        // a family of its own: tiny and huge (power-of-two) scale factors with the geometry scaled the other
        // way, so that the picture stays on the surface
        let (t, path) = if rng.chance(0.1) {
            let k = *rng.pick(&[1.0f32 / 4096., 1.0 / 1024., 1.0 / 64., 64., 1024.]);
            (Transform::scale(k, k), path.transform(&Transform::scale(1. / k, 1. / k)))
        } else {
            (t, path)
        };
        let color = premul_pixel(&mut rng);
        let o = DrawOptions { blend_mode: random_mode(&mut rng), alpha: random_alpha(&mut rng), antialias: if rng.chance(0.7) { AntialiasMode::Gray } else { AntialiasMode::None } };
        // device-space context shared by both renders
        let clip = rng.below(4);
        let layer = rng.chance(0.2);
        let setup = |dt: &mut DrawTarget| {
            match clip {
                1 => dt.push_clip_rect(IntRect::new(IntPoint::new(1, 0), IntPoint::new(w - 1, h))),
                2 => {
                    let mut pb = PathBuilder::new();
                    pb.move_to(0., 0.);
                    pb.line_to(w as f32, 0.5);
                    pb.line_to(0.5, h as f32);
                    pb.close();
                    dt.push_clip(&pb.finish())
                }
                _ => {}
            }
            if layer {
                dt.push_layer(0.7);
            }
        };
        let finish = |dt: &mut DrawTarget| {
            if layer {
                dt.pop_layer();
            }
            if clip == 1 || clip == 2 {
                dt.pop_clip();
            }
        };
        let singular = t.inverse().is_none();
        let mut a = DrawTarget::from_vec(w, h, init.clone());
        setup(&mut a);
        a.set_transform(&t);
        a.fill(&path, &Source::Solid(solid(color)), &o);
        finish(&mut a);
        let mut b = DrawTarget::from_vec(w, h, init.clone());
        setup(&mut b);
        if !singular {
            b.fill(&path.clone().transform(&t), &Source::Solid(solid(color)), &o);
        }
        finish(&mut b);
        let mut co = CaseOut::default();
        co.hash = crate::prng::hash_str(&format!("{:?}{:?}{:?}{:?}{}", (w, h, clip, layer), t, path, o, color));
        let changed = a.get_data().iter().zip(init.iter()).filter(|(p, q)| p != q).count();
        co.nontrivial = changed > 0 && changed < n;
        st.add(if singular { "singular_fills_checked" } else { "pretransformed_pairs" }, 1);
        if let Some(k) = a.get_data().iter().zip(b.get_data().iter()).position(|(x, y)| x != y) {
            if singular {
                co.viol("C11", format!("fill under the non-invertible transform {} changed pixel ({},{})", transform_str(&t), k as i32 % w, k as i32 / w));
            } else {
                co.viol("C11", format!("fill under T={} gives {} at ({},{}) but fill of Path::transform(T) under the identity gives {}", transform_str(&t), hex(a.get_data()[k]), k as i32 % w, k as i32 / w, hex(b.get_data()[k])));
            }
        }
        if want || !co.violations.is_empty() {
            let mut d = J::obj();
            d.set("surface", J::s(&format!("{}x{}", w, h)));
            d.set("transform", J::s(&transform_str(&t)));
            d.set("path", J::s(&path_str(&path)));
            d.set("colour", J::s(&hex(color)));
            d.set("options", J::s(&format!("{} alpha {} {:?}", mode_name(o.blend_mode), o.alpha, o.antialias)));
            d.set("context", J::s(&format!("clip variant {} layer {}", clip, layer)));
            d.set("initial_pixels", pixels_json(&init));
            co.desc = Some(d);
        }
        co
    });

    // sources are fixed in user space: the image and gradient oracles (C13, C12) at T^-1 of the pixel centre,
    // with every case under a current transform, and translations chosen per axis (integer x with a fractional
    // y of the same integer part, halves, negative values, ...)
    run_cases(ctx, &mut out, SubSpec { name: "sources_under_transform", cases: ctx.n(40_000, 800_000), exhaustive: false, max_secs: secs }, |i, want, st| {
        let mut rng = ctx.rng("sources_under_transform", i);
        if i % 3 == 2 {
            let c = super::c12::gen_case(&mut rng);
            let mut co = super::c12::run_case(ctx, &c, st, want);
            for v in co.violations.iter_mut() {
                if v.tag == "C12" {
                    v.tag = "C11".to_string();
                }
            }
            return co;
        }
        let mut c = super::c13::gen_case(&mut rng);
        if c.ctm == Transform::identity() || rng.chance(0.3) {
            let n = rng.int(-6, 6) as f32;
            let frac = *rng.pick(&[0.5f32, 0.25, 0.75, 0.125, 0.9375]);
            c.ctm = match rng.below(6) {
                0 => Transform::translation(n, n + if n < 0. { -frac } else { frac }),
                1 => Transform::translation(n + if n < 0. { -frac } else { frac }, n),
                2 => Transform::translation(n, rng.int(-6, 6) as f32 + frac),
                3 => Transform::translation(rng.int(-6, 6) as f32 + frac, n),
                4 => Transform::translation(n + frac, n + frac),
                _ => any_transform(&mut rng, c.w as f64, c.h as f64),
            };
            // (the source transform that went with the replaced transform is replaced too: a source transform
            // made to cancel a minifying current transform magnifies one texel over the whole surface otherwise)
            c.src_t = match rng.below(4) {
                0 | 1 => Transform::identity(),
                2 => Transform::translation(rng.int(-3, 3) as f32, rng.int(-3, 3) as f32),
                _ => Transform::scale(0.5, 0.5).then_translate(euclid::vec2(0.25, 0.25)),
            };
            // matrices of the general family have inverses with larger entries than C13's own families: the
            // f32 inverse and product carry more rounding error into the 16.16 sampler
            c.slack = 2.;
            // (C13's very wide surfaces are for its own transforms: under a general one the quantisation of the
            // matrix entries, multiplied by pixel coordinates in the hundreds, outgrows the sampler's error band)
            c.w = c.w.min(64);
        }
        let mut co = CaseOut::default();
        co.hash = crate::prng::hash_str(&format!("{:?}{}{}{:?}{:?}{}{:?}", (c.w, c.h, c.iw, c.ih), c.repeat, c.bilinear, c.src_t, c.ctm, c.alpha, c.data));
        if c.ctm.inverse().is_none() {
            return co;
        }
        // image-space positions have to stay inside the sampler's 16.16 fixed-point range (a nearly singular
        // transform sends pixel centres tens of thousands of texels away)
        {
            let m = T64::from(&c.ctm).inverse().expect("invertible").then(&T64::from(&c.src_t));
            let far = [(0., 0.), (c.w as f64, 0.), (0., c.h as f64), (c.w as f64, c.h as f64)].iter().any(|(x, y)| {
                let (u, v) = m.apply(*x, *y);
                !(u.abs() < 2000. && v.abs() < 2000.)
            });
            // ... and a nearly singular transform has an inverse whose f32 rounding error alone moves samples by
            // whole texels: the reference sampler's error band is made for well-conditioned matrices
            let inv = T64::from(&c.ctm).inverse().expect("invertible");
            let ill = [inv.a, inv.b, inv.c, inv.d].iter().any(|v| v.abs() > 8.);
            if far || ill {
                st.add("image_cases_outside_the_fixed_point_range_or_ill_conditioned_skipped", 1);
                return co;
            }
        }
        let spec = SrcSpec::Image { w: c.iw, h: c.ih, data: c.data.clone(), repeat: c.repeat, bilinear: c.bilinear, transform: c.src_t };
        let pixels = match crate::scene::probe_source_checked(c.w, c.h, &c.ctm, &spec, c.alpha) {
            Ok(p) => p,
            Err(crate::scene::ProbeFail::OutOfRange) => return co,
            Err(crate::scene::ProbeFail::NotCovered(x, y, cov)) => {
                co.viol("C11", format!("filling a rectangle that contains the whole surface with 3 px to spare leaves pixel ({},{}) with coverage {} under the current transform {}", x, y, cov, transform_str(&c.ctm)));
                co.desc = Some(super::c13::case_desc(&c));
                return co;
            }
        };
        let res = super::c13::check_image(&c, &pixels, None);
        st.add("image_px_asserted_under_a_transform", res.asserted);
        let distinct: std::collections::HashSet<u32> = pixels.iter().cloned().collect();
        co.nontrivial = distinct.len() >= 2;
        if let Some(v) = res.violation {
            co.viol("C11", format!("image source under T={}: {}", transform_str(&c.ctm), v));
        }
        if want || !co.violations.is_empty() {
            co.desc = Some(super::c13::case_desc(&c));
        }
        co
    });
    // user space is one space: magnifying it by a power of two while shrinking everything given in user space by
    // the same factor (geometry, stroke width, dash lengths, gradient and image geometry) is exact in f32 and must
    // give the same picture at every scale the working range allows
    run_cases(ctx, &mut out, SubSpec { name: "power_of_two_scale_invariance", cases: ctx.n(60_000, 1_000_000), exhaustive: false, max_secs: secs }, |i, want, st| {
        let mut rng = ctx.rng("power_of_two_scale_invariance", i);
        let w = rng.int(2, 20) as i32;
        let h = rng.int(2, 20) as i32;
        let n = (w * h) as usize;
        let init = canary(&mut rng, n);
        let t = random_transform(&mut rng, w as f64, h as f64);
        // magnifications beyond 2^20 only for shapes without curves: lyon asserts that the flattening tolerance
        // (0.1 device px expressed in user units) is at least 1e-8
        let curves = rng.chance(0.5);
        // (lyon's EPSILON for f32 is 1e-4, its limit 1e-8: with the random transform's own factor of up to 3 that is 2^20)
        let e = if !curves && rng.chance(0.15) { *rng.pick(&[22i32, 24, 26, 30, 34]) } else { *rng.pick(&[-20i32, -16, -14, -13, -12, -11, -10, -9, -8, -6, -3, 3, 6, 8, 9, 10, 11, 12, 14, 16, 18, 20]) };
        // far out in the exponent range (user units of 2^-60 .. 2^66 px) for straight shapes and solid colours, which
        // need nothing but the transform itself; down to where its determinant is a subnormal but non-zero f32
        let extreme = !curves && rng.chance(0.12);
        let e = if extreme { *rng.pick(&[-66i32, -64, -62, -60, -50, -40, 40, 50, 60]) } else { e };
        let k = (2.0f32).powi(e);
        let src = if extreme { SrcSpec::Solid(premul_pixel(&mut rng)) } else { scale_invariant_source(&random_source(&mut rng, w, h, 3)) };
        let o = DrawOptions { blend_mode: random_mode(&mut rng), alpha: random_alpha(&mut rng), antialias: if rng.chance(0.7) { AntialiasMode::Gray } else { AntialiasMode::None } };
        let op = match rng.below(10) {
            _ if extreme => match rng.below(3) {
                0 => Op::Fill(random_path(&mut rng, w, h, false), src, o),
                1 => {
                    let mut style = random_style(&mut rng, 5.);
                    style.dash_array.clear();
                    Op::Stroke(random_path(&mut rng, w, h, false), src, style, o)
                }
                _ => Op::FillRect(rng.range(-1., w as f64) as f32, rng.range(-1., h as f64) as f32, rng.range(0.5, w as f64) as f32, rng.range(0.5, h as f64) as f32, src, o),
            },
            8 | 9 => {
                let (iw, ih) = (rng.int(1, 5) as i32, rng.int(1, 5) as i32);
                let img = Img { w: iw, h: ih, data: random_image_data(&mut rng, iw, ih) };
                if rng.chance(0.5) {
                    Op::DrawImageAt(rng.int(-2, w as i64) as f32, rng.range(-2., h as f64) as f32, img, o)
                } else {
                    Op::DrawImageWithSizeAt(rng.range(1., 9.) as f32, rng.range(1., 9.) as f32, rng.range(-2., w as f64) as f32, rng.range(-2., h as f64) as f32, img, o)
                }
            }
            0 | 1 => Op::Fill(random_path(&mut rng, w, h, curves), src, o),
            2 if curves => Op::Fill(small_shape(&mut rng, w, h), src, o),
            2 => Op::Fill(random_path(&mut rng, w, h, false), src, o),
            3 | 4 => Op::Stroke(random_path(&mut rng, w, h, curves), src, random_style(&mut rng, 5.), o),
            5 => Op::FillRect(rng.int(-1, w as i64) as f32, rng.int(-1, h as i64) as f32, rng.int(1, w as i64) as f32, rng.int(1, h as i64) as f32, src, o),
            6 => Op::FillRect(rng.range(-1., w as f64) as f32, rng.range(-1., h as f64) as f32, rng.range(0.5, w as f64) as f32, rng.range(0.5, h as f64) as f32, src, o),
            _ => {
                let (mw, mh) = (rng.int(1, w as i64) as i32, rng.int(1, h as i64) as i32);
                Op::Mask(src, rng.int(-1, 2) as i32, rng.int(-1, 2) as i32, mw, mh, (0..(mw * mh)).map(|_| rng.byte_biased()).collect())
            }
        };
        let clip_path = if rng.chance(0.2) { Some(if curves { small_shape(&mut rng, w, h) } else { random_path(&mut rng, w, h, false) }) } else { None };
        let mut co = CaseOut::default();
        co.hash = crate::prng::hash_str(&format!("{:?}{:?}{:?}{}{:?}", (w, h), t, op, e, clip_path));
        let co_hash = co.hash;
        let render = |scale: Option<f32>| -> Vec<u32> {
            let mut dt = DrawTarget::from_vec(w, h, init.clone());
            let apply = |dt: &mut DrawTarget, op: &Op| match scale {
                Some(k) => scaled_twin(op, k).expect("has a twin").apply(dt),
                None => op.apply(dt),
            };
            // (one case in four: another tiny transform is set first and replaced at once - the last one set counts)
            if let Some(k) = scale {
                if co_hash % 4 == 1 {
                    dt.set_transform(&Transform::scale(k / 2., k / 2.).then(&t));
                }
            }
            apply(&mut dt, &Op::SetTransform(t));
            if let Some(p) = &clip_path {
                apply(&mut dt, &Op::PushClip(p.clone()));
            }
            apply(&mut dt, &op);
            if clip_path.is_some() {
                dt.pop_clip();
            }
            dt.into_vec()
        };
        let a = render(None);
        let b = render(Some(k));
        let changed = a.iter().zip(init.iter()).filter(|(p, q)| p != q).count();
        co.nontrivial = changed > 0 && changed < n;
        st.add(&format!("scale:2^{}", e), 1);
        st.add(&format!("scaled:{}", op.name()), 1);
        if let Some(i) = a.iter().zip(b.iter()).position(|(x, y)| x != y) {
            let differing = a.iter().zip(b.iter()).filter(|(x, y)| x != y).count();
            co.viol("C11", format!("{} under T gives {} at ({},{}) but {} when user space is magnified by 2^{} and everything given in user space shrunk by the same factor ({} pixels differ)", op.name(), hex(a[i]), i as i32 % w, i as i32 / w, hex(b[i]), e, differing));
        }
        if want || !co.violations.is_empty() {
            let mut d = J::obj();
            d.set("surface", J::s(&format!("{}x{}", w, h)));
            d.set("transform", J::s(&transform_str(&t)));
            d.set("scale_exponent", J::Int(e as i64));
            d.set("call", op.desc());
            if let Some(p) = &clip_path {
                d.set("clip_path", J::s(&path_str(p)));
            }
            d.set("initial_pixels", pixels_json(&init));
            co.desc = Some(d);
        }
        co
    });
    // fill_rect is a fill of the rectangle's path: under transforms that are nearly (but not) a translation or
    // the identity, with whole-number rectangles, also far from the origin on wide and tall surfaces where a
    // small deviation from the identity moves pixels
    run_cases(ctx, &mut out, SubSpec { name: "fill_rect_under_almost_special_transforms", cases: ctx.n(30_000, 500_000), exhaustive: false, max_secs: secs / 2. }, |i, want, st| {
        let mut rng = ctx.rng("fill_rect_under_almost_special_transforms", i);
        let long = i % 50 == 0;
        let (w, h) = if long {
            if rng.chance(0.5) { (rng.int(1100, 2600) as i32, rng.int(1, 3) as i32) } else { (rng.int(1, 3) as i32, rng.int(1100, 2600) as i32) }
        } else {
            (rng.int(2, 24) as i32, rng.int(2, 24) as i32)
        };
        let n = (w * h) as usize;
        let init = canary(&mut rng, n);
        let t = special_transform(&mut rng, w as f64, h as f64);
        let (x, y) = (rng.int(-2, w as i64 - 1) as f32, rng.int(-2, h as i64 - 1) as f32);
        let (rw, rh) = (rng.int(1, w as i64 + 2) as f32, rng.int(1, h as i64 + 2) as f32);
        let color = premul_pixel(&mut rng);
        let o = DrawOptions { blend_mode: random_mode(&mut rng), alpha: random_alpha(&mut rng), antialias: if rng.chance(0.7) { AntialiasMode::Gray } else { AntialiasMode::None } };
        let mut a = DrawTarget::from_vec(w, h, init.clone());
        a.set_transform(&t);
        a.fill_rect(x, y, rw, rh, &Source::Solid(solid(color)), &o);
        let mut b = DrawTarget::from_vec(w, h, init.clone());
        let mut pb = PathBuilder::new();
        pb.rect(x, y, rw, rh);
        b.fill(&pb.finish().transform(&t), &Source::Solid(solid(color)), &o);
        let mut co = CaseOut::default();
        co.hash = crate::prng::hash_str(&format!("{:?}{:?}{:?}{}", (w, h, x, y, rw, rh), t, o, color));
        let changed = a.get_data().iter().zip(init.iter()).filter(|(p, q)| p != q).count();
        co.nontrivial = changed > 0 && changed < n;
        st.add(if long { "long_surfaces" } else { "small_surfaces" }, 1);
        if let Some(k) = a.get_data().iter().zip(b.get_data().iter()).position(|(p, q)| p != q) {
            co.viol("C11", format!("fill_rect({},{},{},{}) under T={} gives {} at ({},{}) but the fill of the rectangle's path transformed by T gives {}", x, y, rw, rh, transform_str(&t), hex(a.get_data()[k]), k as i32 % w, k as i32 / w, hex(b.get_data()[k])));
        }
        if want || !co.violations.is_empty() {
            let mut d = J::obj();
            d.set("surface", J::s(&format!("{}x{}", w, h)));
            d.set("transform", J::s(&transform_str(&t)));
            d.set("rect", J::s(&format!("{},{} {}x{}", x, y, rw, rh)));
            d.set("colour", J::s(&hex(color)));
            d.set("options", J::s(&format!("{} alpha {} {:?}", mode_name(o.blend_mode), o.alpha, o.antialias)));
            co.desc = Some(d);
        }
        co
    });
    // text is placed and sized in user space like everything else: under a uniform scale k (and a translation) a
    // line of text covers the box that the same text covers at k times the size and position under the identity
    // (glyph outlines are font-kit's: boxes of solidly painted pixels are compared, within 2 px)
    if crate::text::available() > 0 {
        run_cases(ctx, &mut out, SubSpec { name: "text_under_a_scale", cases: ctx.n(1_500, 30_000), exhaustive: false, max_secs: secs / 2. }, |i, want, st| {
            let mut rng = ctx.rng("text_under_a_scale", i);
            let (w, h) = (rng.int(40, 120) as i32, rng.int(20, 60) as i32);
            let k = *rng.pick(&[0.5f32, 2.0, 3.0, 1.5, 0.25, 4.0]);
            let (tx, ty) = (rng.int(-3, 6) as f32, rng.int(-3, 6) as f32);
            let dev_size = rng.range(12., h as f64 * 0.8) as f32;
            let n = rng.int(2, 6) as usize;
            let alphabet: Vec<char> = "AgWil#o@Q8Hx".chars().collect();
            let text: String = (0..n).map(|_| *rng.pick(&alphabet[..])).collect();
            let (dx, dy) = (rng.range(0., w as f64 * 0.3) as f32, rng.range(h as f64 * 0.5, h as f64 * 0.95) as f32);
            let glyphs = rng.chance(0.3);
            let font = rng.below(3) as usize;
            let aa = rng.chance(0.8);
            let o = opts(BlendMode::SrcOver, 1., aa);
            let bbox = |dt: &DrawTarget| -> Option<(i32, i32, i32, i32)> {
                let (mut x0, mut y0, mut x1, mut y1) = (i32::MAX, i32::MAX, i32::MIN, i32::MIN);
                for y in 0..h {
                    for x in 0..w {
                        if dt.get_data()[(y * w + x) as usize] >> 24 >= 128 {
                            x0 = x0.min(x);
                            y0 = y0.min(y);
                            x1 = x1.max(x);
                            y1 = y1.max(y);
                        }
                    }
                }
                if x1 >= x0 { Some((x0, y0, x1, y1)) } else { None }
            };
            // under the transform: user-space size and position
            let mut a = DrawTarget::new(w, h);
            a.set_transform(&Transform::scale(k, k).then_translate(euclid::vec2(tx, ty)));
            crate::text::draw(&mut a, font, dev_size / k, &text, (dx - tx) / k, (dy - ty) / k, glyphs, &Source::Solid(WHITE), &o);
            // the same picture under the identity (hand-placed glyphs advance by 0.7 of the size: scales along)
            let mut b = DrawTarget::new(w, h);
            crate::text::draw(&mut b, font, dev_size, &text, dx, dy, glyphs, &Source::Solid(WHITE), &o);
            let mut co = CaseOut::default();
            co.hash = crate::prng::hash_str(&format!("{:?}{}{}{}{}", (w, h, font, glyphs, aa), k, dev_size, text, dx + dy * 1000.));
            let (ba, bb) = (bbox(&a), bbox(&b));
            co.nontrivial = bb.is_some();
            st.add("text_pairs", 1);
            // glyph edges differ by a fraction of a pixel between the two ways of asking FreeType for the same
            // outline (a whole pixel for aliased glyphs): the amount of ink and its centre of gravity are compared,
            // which a cut-off or misplaced line of text changes a lot
            let ink = |dt: &DrawTarget| -> (f64, f64, f64) {
                let (mut s, mut sx, mut sy) = (0., 0., 0.);
                for y in 0..h {
                    for x in 0..w {
                        let a = (dt.get_data()[(y * w + x) as usize] >> 24) as f64;
                        s += a;
                        sx += a * x as f64;
                        sy += a * y as f64;
                    }
                }
                if s > 0. { (s, sx / s, sy / s) } else { (0., 0., 0.) }
            };
            let (ia, ib) = (ink(&a), ink(&b));
            if ib.0 > 255. * 150. {
                st.add("text_pairs_compared", 1);
                st.max("largest_relative_ink_difference", (ia.0 - ib.0).abs() / ib.0);
                let dist = ((ia.1 - ib.1).powi(2) + (ia.2 - ib.2).powi(2)).sqrt();
                if ia.0 > 0. {
                    st.max("largest_distance_between_centres_of_gravity_px", dist);
                }
                if (ia.0 - ib.0).abs() > 0.35 * ib.0 || dist > 3. {
                    co.viol("C11", format!("{:?} at device size {} under scale {} then translate ({},{}): ink {:.0} centred at ({:.1},{:.1}), but the same text at that size under the identity: ink {:.0} centred at ({:.1},{:.1}) (solid boxes {:?} vs {:?})", text, dev_size, k, tx, ty, ia.0 / 255., ia.1, ia.2, ib.0 / 255., ib.1, ib.2, ba, bb));
                }
            }
            if want || !co.violations.is_empty() {
                let mut d = J::obj();
                d.set("surface", J::s(&format!("{}x{}", w, h)));
                d.set("text", J::s(&format!("{:?} font #{} {} device size {} at device ({},{})", text, font, if glyphs { "draw_glyphs" } else { "draw_text" }, dev_size, dx, dy)));
                d.set("scale", J::s(&fmt_f(k)));
                co.desc = Some(d);
            }
            co
        });
    }
    // the width of a stroke is a user-space quantity: under a transform that stretches most in a direction that is not
    // the image of an axis, a stroke whose path lies outside the surface still reaches in (C04's region oracle)
    run_cases(ctx, &mut out, SubSpec { name: "stroke_width_under_stretching_transforms", cases: ctx.n(3_000, 60_000), exhaustive: false, max_secs: secs / 2. }, |i, want, st| {
        let mut rng = ctx.rng("stroke_width_under_stretching_transforms", i);
        let mut co = CaseOut::default();
        let c = match super::c04::gen_reaching_in_case(&mut rng) {
            Some(c) => c,
            None => return co,
        };
        co.hash = crate::prng::hash_str(&format!("{:?}{:?}{:?}", c.path, c.style, c.t));
        if !super::c04::well_conditioned(&c.path, &c.t) {
            return co;
        }
        let (res, skipped) = super::c04::run_stroke_case(&c, st);
        co.nontrivial = !skipped && res.inside > 0 && res.outside > 0;
        if let Some(v) = res.violation {
            co.viol("C11", format!("stroke under T={}: {}", transform_str(&c.t), v));
        }
        if want || !co.violations.is_empty() {
            co.desc = Some(super::c04::case_desc(&c));
        }
        co
    });
    // curves stroked under transforms that stretch one axis 16..64 times more than the other: the stroker flattens in
    // user space with a tolerance derived from the transform as a whole (0.1 px over the square root of the
    // determinant), and the outline must stay where that tolerance puts it, whichever axis is the stretched one
    run_cases(ctx, &mut out, SubSpec { name: "curved_strokes_under_uneven_scales", cases: ctx.n(6_000, 120_000), exhaustive: false, max_secs: secs / 2. }, |i, want, st| {
        let mut rng = ctx.rng("curved_strokes_under_uneven_scales", i);
        let mut co = CaseOut::default();
        let w = rng.int(28, 48) as i32;
        let h = rng.int(28, 48) as i32;
        let ratio = *rng.pick(&[16.0f64, 32., 64., 24.]);
        let u = rng.range(0.7, 1.5);
        let tall = rng.chance(0.6); // y is the stretched axis
        let (sx, sy) = if tall { (u / ratio.sqrt(), u * ratio.sqrt()) } else { (u * ratio.sqrt(), u / ratio.sqrt()) };
        let t = Transform::scale(sx as f32, sy as f32);
        let t = if rng.chance(0.2) { Transform::translation(rng.range(-3., 3.) as f32, rng.range(-3., 3.) as f32).then(&t) } else { t };
        let inv = match t.inverse() {
            Some(v) => v,
            None => return co,
        };
        // a curve running along the unstretched axis across the surface, bulging along the stretched one (device space)
        let (along, across) = if tall { (w as f64, h as f64) } else { (h as f64, w as f64) };
        let a0 = rng.range(-4., 4.);
        let a2 = along + rng.range(-4., 4.);
        let c0 = rng.range(0.25, 0.75) * across;
        let c2 = rng.range(0.25, 0.75) * across;
        let bulge = rng.range(0.4, 1.6) * across * if rng.chance(0.5) { 1. } else { -1. };
        let dev = |al: f64, ac: f64| -> Point { let (x, y) = if tall { (al, ac) } else { (ac, al) }; inv.transform_point(Point::new(x as f32, y as f32)) };
        let mut pb = PathBuilder::new();
        let p0 = dev(a0, c0);
        pb.move_to(p0.x, p0.y);
        if rng.chance(0.6) {
            let c = dev(rng.range(0.2, 0.8) * along, (c0 + c2) / 2. + bulge);
            let p2 = dev(a2, c2);
            pb.quad_to(c.x, c.y, p2.x, p2.y);
        } else {
            let c1 = dev(rng.range(0.1, 0.5) * along, c0 + bulge);
            let c2p = dev(rng.range(0.5, 0.9) * along, c2 + bulge * rng.range(0.3, 1.0));
            let p2 = dev(a2, c2);
            pb.cubic_to(c1.x, c1.y, c2p.x, c2p.y, p2.x, p2.y);
        }
        // 4..12 device px thick along the stretched axis
        let width = (rng.range(4., 12.) / sx.max(sy)) as f32;
        let style = StrokeStyle { width, cap: *rng.pick(&[LineCap::Butt, LineCap::Round]), join: LineJoin::Round, miter_limit: 4., dash_array: vec![], dash_offset: 0. };
        let c = super::c04::StrokeCase { w, h, path: pb.finish(), style, t, aa: rng.chance(0.8) };
        co.hash = crate::prng::hash_str(&format!("{:?}{:?}{:?}", c.path, c.style, c.t));
        let (res, skipped) = super::c04::run_stroke_case(&c, st);
        st.add(if tall { "curved_strokes_with_y_stretched" } else { "curved_strokes_with_x_stretched" }, 1);
        co.nontrivial = !skipped && res.inside > 0 && res.outside > 0;
        if let Some(v) = res.violation {
            co.viol("C11", format!("curved stroke under T={}: {}", transform_str(&c.t), v));
        }
        if want || !co.violations.is_empty() {
            co.desc = Some(super::c04::case_desc(&c));
        }
        co
    });
    run_cases(ctx, &mut out, SubSpec { name: "singular_transform_draws_nothing", cases: ctx.n(60_000, 1_000_000), exhaustive: false, max_secs: secs / 2. }, |i, want, st| {
        let mut rng = ctx.rng("singular_transform_draws_nothing", i);
        let w = rng.int(1, 16) as i32;
        let h = rng.int(1, 16) as i32;
        let init = canary(&mut rng, (w * h) as usize);
        let t = singular_transform(&mut rng);
        let src = random_source(&mut rng, w, h, 3);
        let o = DrawOptions { blend_mode: random_mode(&mut rng), alpha: random_alpha(&mut rng), antialias: AntialiasMode::Gray };
        let curves = rng.chance(0.5);
        let op = match rng.below(5) {
            0 => Op::Fill(random_path(&mut rng, w, h, curves), src, o),
            1 => Op::Stroke(random_path(&mut rng, w, h, curves), src, random_style(&mut rng, 4.), o),
            2 => Op::FillRect(rng.int(-1, w as i64) as f32, rng.int(-1, h as i64) as f32, rng.int(1, 8) as f32, rng.int(1, 8) as f32, src, o),
            3 => Op::DrawImageAt(rng.int(-2, w as i64) as f32, rng.int(-2, h as i64) as f32, Img { w: 3, h: 2, data: random_image_data(&mut rng, 3, 2) }, o),
            _ => Op::DrawImageWithSizeAt(rng.range(1., 9.) as f32, rng.range(1., 9.) as f32, rng.range(-2., w as f64) as f32, rng.range(-2., h as f64) as f32, Img { w: 3, h: 2, data: random_image_data(&mut rng, 3, 2) }, o),
        };
        let mut dt = DrawTarget::from_vec(w, h, init.clone());
        dt.set_transform(&t);
        op.apply(&mut dt);
        let mut co = CaseOut::default();
        co.hash = crate::prng::hash_str(&format!("{:?}{:?}{:?}", (w, h), t, op));
        co.nontrivial = true;
        st.add(&format!("singular:{}", op.name()), 1);
        if dt.get_data() != &init[..] {
            co.viol("C11", format!("{} under the non-invertible transform {} changed pixels", op.name(), transform_str(&t)));
        }
        if !bitwise_eq(dt.get_transform(), &t) {
            co.viol("C11", format!("{} changed the transform", op.name()));
        }
        if want || !co.violations.is_empty() {
            let mut d = J::obj();
            d.set("surface", J::s(&format!("{}x{}", w, h)));
            d.set("transform", J::s(&transform_str(&t)));
            d.set("call", op.desc());
            co.desc = Some(d);
        }
        co
    });

    run_cases(ctx, &mut out, SubSpec { name: "device_space_calls_ignore_transform", cases: ctx.n(80_000, 1_500_000), exhaustive: false, max_secs: secs / 2. }, |i, want, st| {
        let mut rng = ctx.rng("device_space_calls_ignore_transform", i);
        let w = rng.int(1, 16) as i32;
        let h = rng.int(1, 16) as i32;
        let n = (w * h) as usize;
        let init = canary(&mut rng, n);
        let t = if rng.chance(0.15) { singular_transform(&mut rng) } else { any_transform(&mut rng, w as f64, h as f64) };
        let kind = rng.below(5);
        let color = premul_pixel(&mut rng);
        let (mw, mh) = (rng.int(1, 8) as i32, rng.int(1, 8) as i32);
        let mask: Vec<u8> = (0..mw * mh).map(|_| rng.byte_biased()).collect();
        let (mx, my) = (rng.int(-4, w as i64) as i32, rng.int(-4, h as i64) as i32);
        let (sw, sh) = (rng.int(1, 8) as i32, rng.int(1, 8) as i32);
        let spix = canary(&mut rng, (sw * sh) as usize);
        let r = (rng.int(-1, 3) as i32, rng.int(-1, 3) as i32);
        let rect = IntRect::new(IntPoint::new(r.0, r.1), IntPoint::new(r.0 + rng.int(1, 8) as i32, r.1 + rng.int(1, 8) as i32));
        let at = IntPoint::new(rng.int(-3, w as i64) as i32, rng.int(-3, h as i64) as i32);
        let mode = random_mode(&mut rng);
        let clip_rect = IntRect::new(IntPoint::new(rng.int(-1, w as i64 - 1) as i32, rng.int(-1, h as i64 - 1) as i32), IntPoint::new(rng.int(1, w as i64 + 1) as i32, rng.int(1, h as i64 + 1) as i32));
        let singular = t.inverse().is_none();
        let render = |tr: &Transform| -> (Vec<u32>, Transform) {
            let mut dt = DrawTarget::from_vec(w, h, init.clone());
            let src = DrawTarget::from_vec(sw, sh, spix.clone());
            dt.set_transform(tr);
            match kind {
                0 => {
                    // the clip rect is in device space; the draw that shows it happens under the identity
                    dt.push_clip_rect(clip_rect);
                    dt.set_transform(&Transform::identity());
                    dt.fill_rect(0., 0., w as f32, h as f32, &Source::Solid(solid(color)), &opts(BlendMode::SrcOver, 1., true));
                    dt.set_transform(tr);
                    dt.pop_clip();
                }
                1 => dt.mask(&Source::Solid(solid(color)), mx, my, &Mask { width: mw, height: mh, data: mask.clone() }),
                2 => dt.copy_surface(&src, rect, at),
                3 => dt.blend_surface(&src, rect, at, mode),
                _ => dt.blend_surface_with_alpha(&src, rect, at, 0.6),
            }
            let tt = *dt.get_transform();
            (dt.into_vec(), tt)
        };
        let (a, _) = render(&Transform::identity());
        let (b, tb) = render(&t);
        let mut co = CaseOut::default();
        co.hash = crate::prng::hash_str(&format!("{:?}{:?}{}{:?}", (w, h, kind, mx, my, at), t, color, init));
        let changed = a.iter().zip(init.iter()).filter(|(p, q)| p != q).count();
        co.nontrivial = changed > 0 && changed < n;
        let name = ["push_clip_rect", "mask(solid)", "copy_surface", "blend_surface", "blend_surface_with_alpha"][kind as usize];
        // mask() under a singular transform: the statement is silent on which of "mask ignores T" and
        // "a singular T draws nothing" wins, so that combination is not asserted
        if !(kind == 1 && singular) {
            st.add(&format!("device_space:{}", name), 1);
            if a != b {
                let k = a.iter().zip(b.iter()).position(|(x, y)| x != y).unwrap();
                co.viol("C11", format!("{} gives {} at ({},{}) under the identity but {} under T={}", name, hex(a[k]), k as i32 % w, k as i32 / w, hex(b[k]), transform_str(&t)));
            }
        }
        if !bitwise_eq(&tb, &t) {
            co.viol("C11", format!("{} changed the transform", name));
        }
        if want || !co.violations.is_empty() {
            let mut d = J::obj();
            d.set("surface", J::s(&format!("{}x{}", w, h)));
            d.set("call", J::s(name));
            d.set("transform", J::s(&transform_str(&t)));
            d.set("mask", J::s(&format!("{}x{} at ({},{}) {:?}", mw, mh, mx, my, mask)));
            d.set("src_rect/dst", J::s(&format!("{:?} -> {:?}, source {}x{}", rect, at, sw, sh)));
            d.set("clip_rect", J::s(&format!("{:?}", clip_rect)));
            co.desc = Some(d);
        }
        co
    });

    run_cases(ctx, &mut out, SubSpec { name: "clear_and_pop_layer_keep_transform", cases: ctx.n(30_000, 500_000), exhaustive: false, max_secs: secs / 3. }, |i, want, st| {
        let mut rng = ctx.rng("clear_and_pop_layer_keep_transform", i);
        let w = rng.int(0, 12) as i32;
        let h = rng.int(0, 12) as i32;
        let t = if rng.chance(0.2) { singular_transform(&mut rng) } else { any_transform(&mut rng, w as f64, h as f64) };
        let mut dt = DrawTarget::new(w, h);
        let clip = rng.below(4);
        match clip {
            1 => dt.push_clip_rect(IntRect::new(IntPoint::new(0, 0), IntPoint::new(w / 2, h))),
            2 => dt.push_clip_rect(IntRect::new(IntPoint::new(3, 3), IntPoint::new(1, 1))),
            3 => dt.push_clip(&small_shape(&mut rng, w.max(1), h.max(1))),
            _ => {}
        }
        dt.set_transform(&t);
        let mut co = CaseOut::default();
        co.hash = crate::prng::hash_str(&format!("{:?}{:?}", (w, h, clip), t));
        co.nontrivial = true;
        dt.clear(solid(premul_pixel(&mut rng)));
        st.add("clear_checked", 1);
        if !bitwise_eq(dt.get_transform(), &t) {
            co.viol("C11", "clear() changed the transform".to_string());
        }
        dt.push_layer_with_blend(*rng.pick(&[0.0f32, 0.5, 1.0]), random_mode(&mut rng));
        if rng.chance(0.5) {
            dt.clear(solid(premul_pixel(&mut rng)));
            if !bitwise_eq(dt.get_transform(), &t) {
                co.viol("C11", "clear() inside a layer changed the transform".to_string());
            }
        }
        dt.pop_layer();
        st.add("pop_layer_checked", 1);
        if !bitwise_eq(dt.get_transform(), &t) {
            co.viol("C11", "pop_layer() changed the transform".to_string());
        }
        if want || !co.violations.is_empty() {
            co.desc = Some(J::s(&format!("{}x{} clip variant {} transform {}", w, h, clip, transform_str(&t))));
        }
        co
    });
    out
}
