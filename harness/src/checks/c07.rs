//! C07 - no panic, abort or hang for any in-range input or call sequence.
//!
//! A grammar-based generator emits call sequences over the whole public surface with
//! boundary-biased values inside the stated domain. Worker subprocesses execute them (an abort or
//! allocation failure cannot be caught in-process) and write a heartbeat before every case; the
//! supervisor turns a dead worker into an "abort" violation, and a silent worker into a hang
//! candidate that is re-run alone (only a case that finishes in neither re-run is a violation).
//! The dash loops carry logical progress bounds (verif::tick), so a loop that stops advancing
//! panics deterministically instead of hanging.

use crate::gen::*;
use crate::json::{self, J};
use crate::ops::*;
use crate::prng::Rng;
use crate::runner::*;
use crate::util::*;
use raqote::*;
use std::time::{Duration, Instant};

const LIMIT: f64 = 3990.0;

/// boundary-biased device-space coordinate
fn coord(rng: &mut Rng, size: f64) -> f64 {
    match rng.below(25) {
        // the smallest subnormals: differences that underflow to zero when divided
        24 => *rng.pick(&[f32::from_bits(1) as f64, -(f32::from_bits(1) as f64), f32::from_bits(3) as f64, -(f32::from_bits(0x7fffff) as f64)]),
        0 => 0.0,
        1 => -0.0,
        2 => f32::MIN_POSITIVE as f64,
        3 => -(f32::MIN_POSITIVE as f64),
        4 => 0.25,
        5 => 0.49999997,
        6 => 1.0,
        7 => 255.0 / 256.0,
        8 => *rng.pick(&[2.0, 4.0, 8.0, 16.0, 64.0, 256.0, 1024.0, 2048.0]),
        9 => -*rng.pick(&[2.0, 4.0, 8.0, 16.0, 64.0, 256.0, 1024.0, 2048.0]),
        10 => 3989.75,
        11 => -3989.75,
        12 => rng.range(-LIMIT, LIMIT),
        13 => size,
        14 => size - 0.25,
        15 => (rng.int(-8, 4 * size as i64 + 8) as f64) / 4.0,
        _ => rng.range(-4.0, size + 4.0),
    }
}

fn gen_path_dev(rng: &mut Rng, w: i32, h: i32) -> Vec<PathOp> {
    let (wf, hf) = (w.max(1) as f64, h.max(1) as f64);
    let mut ops = Vec::new();
    let n = match rng.below(10) {
        0 => 0,
        1 => 1,
        _ => rng.int(2, 9),
    };
    let mut last: Option<Point> = None;
    for _ in 0..n {
        let mut p = Point::new(coord(rng, wf) as f32, coord(rng, hf) as f32);
        if let Some(l) = last {
            match rng.below(12) {
                0 => p = l,                       // zero-length segment
                1 => p.y = l.y,                   // horizontal
                2 => p.x = l.x,                   // vertical
                3 => p = Point::new(l.x + 1e-6, l.y - 1e-6), // nearly coincident
                4 if ops.len() >= 2 => {
                    // a hairpin: back to (almost) the point before the last one
                    if let Some(PathOp::LineTo(b)) | Some(PathOp::MoveTo(b)) = ops.get(ops.len() - 2).cloned() {
                        let e = *rng.pick(&[0.0f32, 1e-3, 1e-4, 0.01, 0.1]);
                        p = Point::new(b.x + e, b.y - e * 0.5);
                    }
                }
                _ => {}
            }
        }
        match rng.below(10) {
            0 => ops.push(PathOp::MoveTo(p)),
            1 => ops.push(PathOp::Close),
            2 | 3 => {
                let c = if rng.chance(0.2) { last.unwrap_or(p) } else { Point::new(coord(rng, wf) as f32, coord(rng, hf) as f32) };
                ops.push(PathOp::QuadTo(c, p));
            }
            4 | 5 => {
                let c1 = if rng.chance(0.2) { last.unwrap_or(p) } else { Point::new(coord(rng, wf) as f32, coord(rng, hf) as f32) };
                let c2 = if rng.chance(0.2) { p } else { Point::new(coord(rng, wf) as f32, coord(rng, hf) as f32) };
                ops.push(PathOp::CubicTo(c1, c2, p));
            }
            _ => ops.push(PathOp::LineTo(p)),
        }
        last = Some(p);
    }
    if rng.chance(0.3) {
        ops.push(PathOp::Close);
    }
    ops
}

fn points_of(ops: &[PathOp]) -> Vec<Point> {
    let mut v = Vec::new();
    for o in ops {
        match o {
            PathOp::MoveTo(p) | PathOp::LineTo(p) => v.push(*p),
            PathOp::QuadTo(c, p) => {
                v.push(*c);
                v.push(*p)
            }
            PathOp::CubicTo(a, b, p) => {
                v.push(*a);
                v.push(*b);
                v.push(*p)
            }
            PathOp::Close => {}
        }
    }
    v
}

/// A transform for C07: scale factors within 1e-4..1e4 (conservative domain decision), or singular.
fn gen_transform(rng: &mut Rng, w: i32, h: i32) -> Transform {
    match rng.below(14) {
        0 => Transform::scale(0., 0.),
        1 => Transform::scale(1., 0.),
        2 => Transform::new(1., 2., 2., 4., 1., 1.),
        3 => Transform::scale(1e-4, 1e-4),
        4 => Transform::scale(1e4, 1e4),
        5 => Transform::scale(*rng.pick(&[1e-3f32, 0.01, 0.5, 2., 100., 1e3]), *rng.pick(&[1e-3f32, 0.01, 0.5, 2., 100., 1e3])),
        6 => Transform::translation(rng.range(-3000., 3000.) as f32, rng.range(-3000., 3000.) as f32),
        7 => Transform::new(-1., 0., 0., 1., w as f32, 0.),
        8 | 9 => Transform::identity(),
        _ => random_transform(rng, w.max(1) as f64, h.max(1) as f64),
    }
}

/// Expresses a device-space path in user space for transform `t` and makes sure that the
/// device-space image (computed the way raqote computes it, in f32) stays within the domain
/// including `outset_user` scaled by the transform. Falls back to shrinking the path.
fn to_user_space(ops_dev: &[PathOp], t: &Transform, outset_user: f64) -> Option<Vec<PathOp>> {
    let t64 = T64::from(t);
    let inv = t64.inverse();
    let map = |p: &Point, k: f64| -> Point {
        match &inv {
            Some(iv) => {
                let (x, y) = iv.apply(p.x as f64 * k, p.y as f64 * k);
                Point::new(x as f32, y as f32)
            }
            // singular: there is no preimage; use the coordinates as user coordinates
            None => Point::new((p.x as f64 * k) as f32, (p.y as f64 * k) as f32),
        }
    };
    let scale = t64.max_scale();
    let outset_dev = if outset_user.is_finite() { outset_user * scale } else { 0. };
    if !(outset_dev < 3000.) {
        return None;
    }
    let mut k = 1.0;
    for _ in 0..12 {
        let user: Vec<PathOp> = ops_dev
            .iter()
            .map(|o| match o {
                PathOp::MoveTo(p) => PathOp::MoveTo(map(p, k)),
                PathOp::LineTo(p) => PathOp::LineTo(map(p, k)),
                PathOp::QuadTo(c, p) => PathOp::QuadTo(map(c, k), map(p, k)),
                PathOp::CubicTo(a, b, p) => PathOp::CubicTo(map(a, k), map(b, k), map(p, k)),
                PathOp::Close => PathOp::Close,
            })
            .collect();
        let ok = points_of(&user).iter().all(|p| {
            let d = t.transform_point(*p);
            p.x.is_finite() && p.y.is_finite() && d.x.is_finite() && d.y.is_finite() && (d.x.abs() as f64) + outset_dev <= LIMIT && (d.y.abs() as f64) + outset_dev <= LIMIT && p.x.abs() < 1e9 && p.y.abs() < 1e9
        });
        if ok {
            return Some(user);
        }
        k *= 0.4;
    }
    None
}

fn gen_dash(rng: &mut Rng, path_len_user: f64) -> (Vec<f32>, f32) {
    let arr: Vec<f32> = match rng.below(16) {
        0 => vec![],
        1 => vec![0.],
        2 => vec![0., 0.],
        3 => vec![-1., 1.],                     // sums to zero: disabled
        4 => vec![-3., 1.],                     // negative total: disabled
        5 => vec![f32::NAN, 2.],                // NaN total: disabled
        6 => rng.pick(&[vec![3e38f32, 3e38], vec![3e38], vec![f32::MAX], vec![1e38, 1e38, 1e38], vec![2e38, 0., 1e38]]).clone(), // sums (or doubled sums) that overflow to infinity
        7 => vec![f32::INFINITY, 1.],
        8 => vec![1e30, 0.],
        9 => vec![0., 5.],
        10 => vec![5., 0.],
        _ => (0..rng.int(1, 6)).map(|_| if rng.chance(0.15) { 0. } else { rng.range(0.05, 40.) as f32 }).collect(),
    };
    // fewer than 5000 dashes along the path in routine cases (an outline with 1e4+ dashes is slow, not hung)
    let mut arr = arr;
    let all_nonneg = arr.iter().all(|v| *v >= 0.);
    let total: f64 = arr.iter().map(|v| *v as f64).sum();
    if all_nonneg && total > 0. && total.is_finite() && path_len_user.is_finite() {
        let dashes = path_len_user / total * arr.len() as f64;
        if dashes > 5000. {
            let f = (dashes / 5000.) as f32;
            for v in arr.iter_mut() {
                *v *= f;
            }
        }
    }
    let off = match rng.below(12) {
        0 => 0.,
        1 => -5.,
        2 => 1e30,
        3 => -1e30,
        4 => f32::INFINITY,
        5 => f32::NEG_INFINITY,
        6 => f32::NAN,
        7 => f32::MAX,
        8 => f32::MIN_POSITIVE,
        _ => rng.range(-100., 100.) as f32,
    };
    (arr, off)
}

fn path_len(ops: &[PathOp]) -> f64 {
    // control polygon length bounds the arc length
    let mut len = 0.;
    let mut cur: Option<Point> = None;
    let mut first: Option<Point> = None;
    let mut d = |a: Point, b: Point| ((a.x - b.x) as f64).hypot((a.y - b.y) as f64);
    for o in ops {
        match o {
            PathOp::MoveTo(p) => {
                cur = Some(*p);
                first = cur;
            }
            PathOp::LineTo(p) => {
                if let Some(c) = cur {
                    len += d(c, *p);
                }
                cur = Some(*p);
                if first.is_none() {
                    first = cur
                }
            }
            // (a curve without a current point starts at its first control point, which also becomes
            // the subpath's start: a later Close comes back to it)
            PathOp::QuadTo(c1, p) => {
                if let Some(c) = cur {
                    len += d(c, *c1);
                } else {
                    first = Some(*c1);
                }
                len += d(*c1, *p);
                cur = Some(*p);
            }
            PathOp::CubicTo(a, b, p) => {
                if let Some(c) = cur {
                    len += d(c, *a);
                } else {
                    first = Some(*a);
                }
                len += d(*a, *b) + d(*b, *p);
                cur = Some(*p);
            }
            PathOp::Close => {
                if let (Some(c), Some(f)) = (cur, first) {
                    len += d(c, f);
                }
                cur = first;
            }
        }
    }
    len
}

fn gen_alpha(rng: &mut Rng) -> f32 {
    match rng.below(14) {
        0 => 0.,
        1 => 1.,
        2 => -0.5,
        3 => 1.5,
        4 => f32::NAN,
        5 => f32::INFINITY,
        6 => f32::NEG_INFINITY,
        7 => 1e30,
        8 => 1. / 255.,
        9 => 254.5 / 255.,
        _ => rng.f64() as f32,
    }
}

fn gen_source(rng: &mut Rng, w: i32, h: i32) -> SrcSpec {
    let mut s = random_source(rng, w.max(1), h.max(1), 3);
    // boundary values for the constructors' parameters (radii positive, >= 1 stop)
    match &mut s {
        SrcSpec::Radial { radius, stops, .. } => {
            if rng.chance(0.3) {
                *radius = *rng.pick(&[1e-3f32, 0.5, 1., 128., 1e4, 1e-6]);
            }
            tweak_stops(rng, stops);
        }
        SrcSpec::TwoCircle { r1, r2, c1, c2, stops, .. } => {
            if rng.chance(0.3) {
                // any two circles with positive radii
                *r1 = *rng.pick(&[1e-3f32, 1., 5., 100.]);
                *r2 = *rng.pick(&[1e-3f32, 1., 5., 100.]);
                if rng.chance(0.3) {
                    *c1 = *c2;
                }
            }
            tweak_stops(rng, stops);
        }
        SrcSpec::Sweep { start_angle, end_angle, stops, .. } => {
            if rng.chance(0.4) {
                *start_angle = *rng.pick(&[0.0f32, 90., -90., 360., 720., 1e6, 45.]);
                *end_angle = *rng.pick(&[0.0f32, 90., -90., 360., 720., -1e6, 45.]);
            }
            tweak_stops(rng, stops);
        }
        SrcSpec::Linear { start, end, stops, .. } => {
            if rng.chance(0.1) {
                *end = *start; // zero-length gradient vector
            }
            if rng.chance(0.1) {
                *start = (-3000., 2000.);
            }
            tweak_stops(rng, stops);
        }
        SrcSpec::Image { transform, .. } => {
            if rng.chance(0.15) {
                // far-away but inside the 16.16 range
                *transform = Transform::translation(rng.range(-3000., 3000.) as f32, rng.range(-3000., 3000.) as f32);
            }
            if rng.chance(0.05) {
                *transform = Transform::scale(0., 0.);
            }
        }
        _ => {}
    }
    s
}

/// Image sources are sampled in 16.16 fixed point: the image-space coordinates of the surface must
/// stay inside that range (C13's bound, taken over as a domain decision). Otherwise use a solid.
fn source_for(rng: &mut Rng, w: i32, h: i32, t: &Transform) -> SrcSpec {
    let s = gen_source(rng, w, h);
    if let SrcSpec::Image { transform, .. } = &s {
        let ok = match T64::from(t).inverse() {
            None => true, // nothing is drawn under a singular transform
            Some(inv) => {
                let m = inv.then(&T64::from(transform));
                let lim = 30000.;
                [(0., 0.), (w as f64 + 1., 0.), (0., h as f64 + 1.), (w as f64 + 1., h as f64 + 1.)].iter().all(|c| {
                    let (x, y) = m.apply(c.0, c.1);
                    x.abs() < lim && y.abs() < lim
                }) && [m.a, m.b, m.c, m.d].iter().all(|v| v.abs() < 30000.)
            }
        };
        if !ok {
            return SrcSpec::Solid(premul_pixel(rng));
        }
    }
    s
}

fn tweak_stops(rng: &mut Rng, stops: &mut Vec<Stop>) {
    match rng.below(10) {
        0 => {
            // duplicate position (hard stop)
            if let Some(l) = stops.last().cloned() {
                stops.push(Stop { pos: l.pos, argb: [255, 0, 0, 0] });
            }
        }
        1 => {
            // positions slightly outside [0,1], still increasing
            if let Some(f) = stops.first_mut() {
                f.pos = -1.0;
            }
            if stops.len() > 1 {
                if let Some(l) = stops.last_mut() {
                    l.pos = 1.2;
                }
            }
        }
        2 => {
            for s in stops.iter_mut() {
                s.argb[0] = 0;
            }
        }
        _ => {}
    }
}

/// the part of the public API that is not a DrawTarget drawing operation
#[derive(Clone, Debug)]
enum Extra {
    CopySurface(i32, i32, (i32, i32, i32, i32), (i32, i32), u8, usize, f32),
    ByteViews,
    WritePng,
    PathApi(Path, f32, f32, f32, Transform),
    Arc(f32, f32, f32, f32, f32),
    IntoVecRoundTrip,
}

#[derive(Clone, Debug)]
enum Call {
    Op(Op),
    Extra(Extra),
}

#[derive(Clone, Debug)]
struct Seq {
    w: i32,
    h: i32,
    ctor: u8,
    calls: Vec<Call>,
}

fn gen_seq(rng: &mut Rng) -> Seq {
    let dim = |rng: &mut Rng| -> i32 {
        match rng.below(12) {
            0 => 0,
            1 => 1,
            2 => 2,
            3 => 64,
            _ => rng.int(1, 24) as i32,
        }
    };
    let (w, h) = (dim(rng), dim(rng));
    let n = rng.int(1, 12);
    let mut calls = Vec::new();
    let mut t = Transform::identity();
    let mut open: Vec<char> = Vec::new();
    for _ in 0..n {
        let k = rng.below(30);
        match k {
            0 | 1 => {
                t = gen_transform(rng, w, h);
                calls.push(Call::Op(Op::SetTransform(t)));
            }
            2 | 3 => {
                let r = match rng.below(9) {
                    0 => (3, 3, 1, 1),
                    1 => (0, 0, 0, 0),
                    2 => (-1_000_000, -1_000_000, 1_000_000, 1_000_000),
                    3 => (w + 5, 0, w + 9, h),
                    4 => (i32::MIN, i32::MIN, i32::MAX, i32::MAX),
                    5 => *rng.pick(&[(1_000_000, 1_000_000, -1_000_000, -1_000_000), (100_000, 100_000, 0, 0), (70_000, 60_000, 5, 5), (0, 0, -50_000, -50_000), (i32::MAX, i32::MAX, i32::MIN, i32::MIN)]),
                    _ => {
                        let (x0, y0) = (rng.int(-4, w as i64 + 2) as i32, rng.int(-4, h as i64 + 2) as i32);
                        (x0, y0, x0 + rng.int(-2, w as i64 + 4) as i32, y0 + rng.int(-2, h as i64 + 4) as i32)
                    }
                };
                calls.push(Call::Op(Op::PushClipRect(r.0, r.1, r.2, r.3)));
                open.push('c');
            }
            4 => {
                let dev = gen_path_dev(rng, w, h);
                if let Some(u) = to_user_space(&dev, &t, 0.) {
                    calls.push(Call::Op(Op::PushClip(Path { ops: u, winding: if rng.chance(0.5) { Winding::EvenOdd } else { Winding::NonZero } })));
                    open.push('c');
                }
            }
            5 => {
                calls.push(Call::Op(Op::PushLayer(gen_alpha(rng), random_mode(rng))));
                open.push('l');
            }
            6 | 7 => {
                // pops match pushes, but a clip pushed before a layer may be popped while the layer is open
                if open.last() == Some(&'l') && open.contains(&'c') && rng.chance(0.3) {
                    let k = open.iter().rposition(|c| *c == 'c').unwrap();
                    open.remove(k);
                    calls.push(Call::Op(Op::PopClip));
                } else if let Some(c) = open.pop() {
                    calls.push(Call::Op(if c == 'c' { Op::PopClip } else { Op::PopLayer }));
                }
            }
            8..=12 if crate::text::available() > 0 && rng.chance(0.08) => {
                // text: the glyphs' device size and positions stay inside the domain (the glyph mask is as
                // large as the box around all glyphs); only under invertible transforms
                let t64 = T64::from(&t);
                let scale = t64.max_scale();
                // (FreeType refuses glyphs at sizes and distortions it cannot represent and draw_glyphs unwraps that
                // error: text stays at 1 px and more under transforms whose two axes differ by less than 16 times)
                let min_scale = t64.inverse().map(|i| 1. / i.max_scale()).unwrap_or(0.);
                if t.inverse().is_some() && scale.is_finite() && scale < 1e3 && min_scale > 1e-3 && scale / min_scale < 16. {
                    let dev_size = *rng.pick(&[1.0f64, 2., 4., 12., 40., 150., 300.]);
                    let dev = vec![PathOp::MoveTo(Point::new(rng.range(-600., 600.) as f32, rng.range(-600., 600.) as f32))];
                    if let Some(u) = to_user_space(&dev, &t, 0.) {
                        let at = points_of(&u)[0];
                        let alphabet: Vec<char> = "AgW.il#o@Q8 ".chars().collect();
                        let text: String = (0..rng.int(0, 4)).map(|_| *rng.pick(&alphabet[..])).collect();
                        // the point size itself goes to FreeType unscaled (it asserts on sizes it cannot set)
                        let size = (dev_size / scale) as f32;
                        if !(size >= 1. && size <= 1000. && size as f64 * min_scale >= 1.) {
                            continue;
                        }
                        let spec = TextSpec { font: rng.below(3) as usize, size, text, x: at.x, y: at.y, glyphs: rng.chance(0.4) };
                        let o = DrawOptions { blend_mode: random_mode(rng), alpha: gen_alpha(rng), antialias: if rng.chance(0.6) { AntialiasMode::Gray } else { AntialiasMode::None } };
                        calls.push(Call::Op(Op::Text(spec, source_for(rng, w, h, &t), o)));
                    }
                }
            }
            8..=12 => {
                let dev = gen_path_dev(rng, w, h);
                if let Some(u) = to_user_space(&dev, &t, 0.) {
                    let o = DrawOptions { blend_mode: random_mode(rng), alpha: gen_alpha(rng), antialias: if rng.chance(0.6) { AntialiasMode::Gray } else { AntialiasMode::None } };
                    calls.push(Call::Op(Op::Fill(Path { ops: u, winding: if rng.chance(0.5) { Winding::EvenOdd } else { Winding::NonZero } }, source_for(rng, w, h, &t), o)));
                }
            }
            13..=17 if rng.chance(0.05) => {
                // dashes as fine as the f32 resolution of the coordinates they are measured at: a short
                // segment far from the origin (a dash boundary may round back onto the point it started from)
                let far_x = rng.range(1000., 3900.) as f32 * if rng.chance(0.5) { -1. } else { 1. };
                let far_y = rng.range(-3900., 3900.) as f32;
                let horizontal = rng.chance(0.5);
                let ulp = |v: f32| -> f32 { let a = v.abs().max(1e-30); f32::from_bits(a.to_bits() + 1) - a };
                let d = ulp(far_x.abs().max(far_y.abs())) * *rng.pick(&[0.25f32, 0.5, 1.0, 2.0, 8.0]);
                let len = d * rng.range(20., 3000.) as f32;
                let (x1, y1) = if horizontal { (far_x + len, far_y) } else { (far_x, far_y + len) };
                let ops = vec![PathOp::MoveTo(Point::new(far_x, far_y)), PathOp::LineTo(Point::new(x1, y1))];
                let dash = if rng.chance(0.5) { vec![d] } else { vec![d, d * 2.] };
                let st = StrokeStyle { width: rng.range(0.5, 4.) as f32, cap: *rng.pick(&[LineCap::Butt, LineCap::Round, LineCap::Square]), join: LineJoin::Bevel, miter_limit: 2., dash_array: dash, dash_offset: if rng.chance(0.5) { 0. } else { -d * 0.5 } };
                let o = DrawOptions { blend_mode: BlendMode::SrcOver, alpha: 1., antialias: AntialiasMode::Gray };
                // (drawn under the identity: the geometry is given in device space)
                calls.push(Call::Op(Op::SetTransform(Transform::identity())));
                calls.push(Call::Op(Op::Stroke(Path { ops, winding: Winding::NonZero }, SrcSpec::Solid(premul_pixel(rng)), st, o)));
                calls.push(Call::Op(Op::SetTransform(t)));
            }
            13..=17 => {
                let dev = gen_path_dev(rng, w, h);
                let scale = T64::from(&t).max_scale().max(1e-12);
                // a width whose outset stays well inside the domain in device space
                let ml = *rng.pick(&[0.0f32, 0.5, 1., 1.4142135, 2., 4., 10., 100., 8192., 1e4, 1e6, f32::MAX]);
                let max_w_user = (600. / scale) / (ml.max(1.4142135) as f64);
                let width = match rng.below(12) {
                    0 => 0.,
                    1 => -1.,
                    2 => f32::NAN,
                    3 => f32::MIN_POSITIVE,
                    4 => -0.0,
                    5 => 1e-6,
                    6 => max_w_user as f32,
                    _ => (rng.range(0.05, 12.) / scale).min(max_w_user) as f32,
                };
                let outset = if width.is_finite() && width > 0. { width as f64 / 2. * (ml.max(1.4142135) as f64) } else { 0. };
                if let Some(u) = to_user_space(&dev, &t, outset) {
                    let (dash, off) = if rng.chance(0.5) { gen_dash(rng, path_len(&u)) } else { (vec![], 0.) };
                    let st = StrokeStyle { width, cap: *rng.pick(&[LineCap::Butt, LineCap::Round, LineCap::Square]), join: *rng.pick(&[LineJoin::Miter, LineJoin::Round, LineJoin::Bevel]), miter_limit: ml, dash_array: dash, dash_offset: off };
                    let o = DrawOptions { blend_mode: random_mode(rng), alpha: gen_alpha(rng), antialias: if rng.chance(0.6) { AntialiasMode::Gray } else { AntialiasMode::None } };
                    calls.push(Call::Op(Op::Stroke(Path { ops: u, winding: Winding::NonZero }, source_for(rng, w, h, &t), st, o)));
                }
            }
            18 | 19 => {
                // fill_rect: the rectangle's device image must stay inside the domain
                let dev = vec![PathOp::MoveTo(Point::new(coord(rng, w as f64) as f32, coord(rng, h as f64) as f32)), PathOp::LineTo(Point::new(coord(rng, w as f64) as f32, coord(rng, h as f64) as f32))];
                if let Some(u) = to_user_space(&dev, &t, 0.) {
                    let p = points_of(&u);
                    let (x, y, rw, rh) = (p[0].x, p[0].y, p[1].x - p[0].x, p[1].y - p[0].y);
                    // all four corners
                    let corners = [Point::new(x, y), Point::new(x + rw, y), Point::new(x + rw, y + rh), Point::new(x, y + rh)];
                    if corners.iter().all(|c| {
                        let d = t.transform_point(*c);
                        d.x.abs() <= 3990. && d.y.abs() <= 3990.
                    }) {
                        let (x, y, rw, rh) = if rng.chance(0.3) { (x.round(), y.round(), rw.round(), rh.round()) } else { (x, y, rw, rh) };
                        let o = DrawOptions { blend_mode: random_mode(rng), alpha: gen_alpha(rng), antialias: AntialiasMode::Gray };
                        if [x, y, x + rw, y + rh].iter().all(|v| v.abs() <= 3990.) || t != Transform::identity() {
                            calls.push(Call::Op(Op::FillRect(x, y, rw, rh, source_for(rng, w, h, &t), o)));
                        }
                    }
                }
            }
            20 => calls.push(Call::Op(Op::Clear(premul_pixel(rng)))),
            21 | 22 => {
                let (mw, mh) = (rng.int(1, 70) as i32, rng.int(1, 70) as i32);
                let data: Vec<u8> = (0..mw * mh).map(|_| rng.byte_biased()).collect();
                let (x, y) = match rng.below(6) {
                    0 => (-(mw + 3), 0),
                    1 => (w + 2, h + 2),
                    2 => (-3000, 3000),
                    _ => (rng.int(-(mw as i64), w as i64 + 1) as i32, rng.int(-(mh as i64), h as i64 + 1) as i32),
                };
                calls.push(Call::Op(Op::Mask(source_for(rng, w, h, &t), x, y, mw, mh, data)));
            }
            23 | 24 => {
                let (iw, ih) = (rng.int(1, 9) as i32, rng.int(1, 9) as i32);
                let img = Img { w: iw, h: ih, data: random_image_data(rng, iw, ih) };
                let o = DrawOptions { blend_mode: random_mode(rng), alpha: gen_alpha(rng), antialias: AntialiasMode::Gray };
                if t == Transform::identity() || rng.chance(0.5) {
                    let scale = T64::from(&t).max_scale().max(1e-9);
                    let (x, y) = ((rng.range(-30., 30.) / scale) as f32, (rng.range(-30., 30.) / scale) as f32);
                    if rng.chance(0.5) {
                        calls.push(Call::Op(Op::DrawImageAt(x.round(), y.round(), img, o)));
                    } else {
                        let (sw, sh) = ((rng.range(0.1, 40.) / scale) as f32, (rng.range(0.1, 40.) / scale) as f32);
                        calls.push(Call::Op(Op::DrawImageWithSizeAt(sw, sh, x, y, img, o)));
                    }
                }
            }
            25 => {
                let (sw, sh) = (rng.int(0, 9) as i32, rng.int(0, 9) as i32);
                let far = rng.chance(0.3);
                let lim = if far { 100_000_000 } else { 12 };
                let r = (rng.int(-lim, lim) as i32, rng.int(-lim, lim) as i32, rng.int(-lim, lim) as i32, rng.int(-lim, lim) as i32);
                calls.push(Call::Extra(Extra::CopySurface(sw, sh, r, (rng.int(-lim, lim) as i32, rng.int(-lim, lim) as i32), rng.below(3) as u8, rng.below(28) as usize, gen_alpha(rng))));
            }
            26 => calls.push(Call::Extra(if rng.chance(0.5) { Extra::ByteViews } else { Extra::IntoVecRoundTrip })),
            27 => calls.push(Call::Extra(Extra::WritePng)),
            28 => {
                let dev = gen_path_dev(rng, w, h);
                let tol = *rng.pick(&[1e-3f32, 0.01, 0.1, 1., 10., 1e3]);
                calls.push(Call::Extra(Extra::PathApi(Path { ops: dev, winding: if rng.chance(0.5) { Winding::EvenOdd } else { Winding::NonZero } }, tol, coord(rng, w as f64) as f32, coord(rng, h as f64) as f32, gen_transform(rng, w, h))));
            }
            _ => {
                let r = *rng.pick(&[0.0f32, 1e-6, 0.5, 1., 10., 1000.]);
                let start = *rng.pick(&[0.0f32, 1., -1., 3.1415927, 6.2831855, 100., -1e4, 1e6]);
                let sweep = *rng.pick(&[0.0f32, 1e-6, -1e-6, 1., -1., 3.1415927, 6.2831855, -6.2831855, 7., -100., 1e6]);
                calls.push(Call::Extra(Extra::Arc(rng.range(-100., 100.) as f32, rng.range(-100., 100.) as f32, r, start, sweep)));
            }
        }
    }
    while let Some(c) = open.pop() {
        calls.push(Call::Op(if c == 'c' { Op::PopClip } else { Op::PopLayer }));
    }
    Seq { w, h, ctor: rng.below(3) as u8, calls }
}

fn exec_extra(e: &Extra, dt: &mut DrawTarget, work_dir: &str) {
    match e {
        Extra::CopySurface(sw, sh, r, at, entry, mode, alpha) => {
            let src = DrawTarget::new(*sw, *sh);
            let rect = IntRect::new(IntPoint::new(r.0, r.1), IntPoint::new(r.2, r.3));
            let p = IntPoint::new(at.0, at.1);
            match entry {
                0 => dt.copy_surface(&src, rect, p),
                1 => dt.blend_surface(&src, rect, p, MODES[*mode].0),
                _ => dt.blend_surface_with_alpha(&src, rect, p, *alpha),
            }
        }
        Extra::ByteViews => {
            let n = dt.get_data().len();
            let b = dt.get_data_u8_mut();
            if !b.is_empty() {
                // a valid premultiplied pixel written through the byte view (B, G, R, A)
                b[0] = 0x10;
                b[1] = 0x20;
                b[2] = 0x30;
                b[3] = 0x40;
                let l = b.len();
                b[l - 1] = 0xff;
            }
            assert_eq!(dt.get_data_u8().len(), 4 * n);
            let _ = dt.get_data_mut().len();
        }
        Extra::WritePng => {
            let path = format!("{}/c07-{}-{:?}.png", work_dir, std::process::id(), std::thread::current().id());
            let _ = dt.write_png(&path);
            let _ = std::fs::remove_file(&path);
        }
        Extra::PathApi(p, tol, x, y, t) => {
            let f = p.flatten(*tol);
            let _ = f.contains_point(*tol, *x, *y);
            let _ = p.contains_point(*tol, *x, *y);
            let _ = p.clone().transform(t).flatten(*tol).ops.len();
        }
        Extra::Arc(x, y, r, start, sweep) => {
            let mut pb = PathBuilder::new();
            pb.move_to(*x, *y);
            pb.arc(*x, *y, *r, *start, *sweep);
            pb.rect(*x, *y, *r, -*r);
            pb.close();
            let p = pb.finish();
            let _ = p.flatten(0.1).ops.len();
            let mut pb2: PathBuilder = p.into();
            pb2.cubic_to(1., 2., 3., 4., 5., 6.);
            let p2 = pb2.finish();
            if [*x, *y, *r].iter().all(|v| v.abs() <= 1000.) && *dt.get_transform() == Transform::identity() {
                dt.fill(&p2, &Source::Solid(WHITE), &DrawOptions::new());
            }
        }
        Extra::IntoVecRoundTrip => {}
    }
}

/// executes a sequence; returns Err(message) for a panic unless it matches a known finding
fn exec_seq(s: &Seq, work_dir: &str) -> Result<(), (String, Option<Call>)> {
    let current: std::cell::RefCell<Option<Call>> = std::cell::RefCell::new(None);
    let res = guarded(|| {
        let n = (s.w * s.h) as usize;
        let mut dt = match s.ctor {
            0 => DrawTarget::new(s.w, s.h),
            1 => DrawTarget::from_vec(s.w, s.h, vec![0x80402010; n / 2]),
            _ => DrawTarget::from_backing(s.w, s.h, vec![0xff000000u32; n]),
        };
        for c in &s.calls {
            *current.borrow_mut() = Some(c.clone());
            match c {
                Call::Op(op) => op.apply(&mut dt),
                Call::Extra(e) => exec_extra(e, &mut dt, work_dir),
            }
        }
        let _ = dt.width() + dt.height();
        let v = dt.into_vec();
        assert_eq!(v.len(), n);
    });
    match res {
        Ok(()) => Ok(()),
        Err(p) => Err((p, current.borrow().clone())),
    }
}

fn call_json(c: &Call) -> J {
    match c {
        Call::Op(op) => op.desc(),
        Call::Extra(e) => J::s(&format!("{:?}", e)),
    }
}

fn seq_json(s: &Seq) -> J {
    let mut o = J::obj();
    o.set("surface", J::s(&format!("{}x{} (constructor {})", s.w, s.h, ["new", "from_vec", "from_backing"][s.ctor as usize])));
    o.set("calls", J::Arr(s.calls.iter().map(call_json).collect()));
    o
}

fn mode_of_call(c: &Call) -> Option<BlendMode> {
    match c {
        Call::Op(Op::Fill(_, _, o)) | Call::Op(Op::Text(_, _, o)) | Call::Op(Op::Stroke(_, _, _, o)) | Call::Op(Op::FillRect(_, _, _, _, _, o)) | Call::Op(Op::DrawImageAt(_, _, _, o)) | Call::Op(Op::DrawImageWithSizeAt(_, _, _, _, _, o)) => Some(o.blend_mode),
        Call::Extra(Extra::CopySurface(_, _, _, _, 1, m, _)) => Some(MODES[*m].0),
        _ => None,
    }
}

fn run_seq_case(ctx: &Ctx, s: &Seq, want: bool, st: &mut Stats, work_dir: &str) -> CaseOut {
    let mut co = CaseOut::default();
    co.hash = crate::prng::hash_str(&format!("{:?}", s));
    co.nontrivial = s.calls.len() >= 2;
    st.add("sequences", 1);
    st.add("calls", s.calls.len() as u64);
    for c in &s.calls {
        match c {
            Call::Op(op) => st.add(&format!("call:{}", op.name()), 1),
            Call::Extra(e) => st.add(&format!("call:{}", format!("{:?}", e).split('(').next().unwrap_or("extra")), 1),
        }
    }
    if let Err((p, at)) = exec_seq(s, work_dir) {
        // known findings in the dependency (sw-composite), attributed by exact signature
        let in_swc = p.contains("sw-composite");
        let pending_layer_modes: Vec<BlendMode> = s.calls.iter().filter_map(|c| if let Call::Op(Op::PushLayer(_, m)) = c { Some(*m) } else { None }).collect();
        let call_mode = at.as_ref().and_then(mode_of_call);
        let nonsep = call_mode.map(is_nonseparable).unwrap_or(false) || (matches!(at, Some(Call::Op(Op::PopLayer))) && pending_layer_modes.iter().any(|m| is_nonseparable(*m)));
        let color_mode = call_mode == Some(BlendMode::Color) || (matches!(at, Some(Call::Op(Op::PopLayer))) && pending_layer_modes.contains(&BlendMode::Color));
        if in_swc && nonsep && p.contains("attempt to add with overflow") && p.contains("lib.rs") && ctx.known.active("C07", "sw-composite-lum-overflow") {
            co.known.push(("C07:sw-composite-lum-overflow".to_string(), format!("{} during {}", p, at.as_ref().map(|c| call_json(c).to_string_pretty().replace('\n', " ")).unwrap_or_default().chars().take(160).collect::<String>())));
        } else if in_swc && color_mode && p.contains("assertion failed") && (p.contains("<= a") || p.contains("pack_argb32") || p.contains("lib.rs")) && ctx.known.active("C07", "sw-composite-color-blend-assert") {
            co.known.push(("C07:sw-composite-color-blend-assert".to_string(), p.clone()));
        } else {
            co.viol("C07", format!("panic: {} during {}", p, at.as_ref().map(|c| call_json(c).to_string_pretty().replace('\n', " ")).unwrap_or_default()));
        }
    }
    if want || !co.violations.is_empty() {
        co.desc = Some(seq_json(s));
    }
    co
}

fn directed_seqs() -> Vec<Seq> {
    let white = SrcSpec::Solid(0xffffffff);
    let o = opts(BlendMode::SrcOver, 1., true);
    let line = |x0: f32, y0: f32, x1: f32, y1: f32| Path { ops: vec![PathOp::MoveTo(Point::new(x0, y0)), PathOp::LineTo(Point::new(x1, y1))], winding: Winding::NonZero };
    let st = |dash: Vec<f32>, off: f32| StrokeStyle { width: 1., cap: LineCap::Butt, join: LineJoin::Miter, miter_limit: 10., dash_array: dash, dash_offset: off };
    let mut v = Vec::new();
    // finding 8: infinite dash period with a negative offset
    v.push(Seq { w: 8, h: 8, ctor: 0, calls: vec![Call::Op(Op::Stroke(line(1., 1., 7., 7.), white.clone(), st(vec![3e38, 3e38], -5.), o))] });
    v.push(Seq { w: 8, h: 8, ctor: 0, calls: vec![Call::Op(Op::Stroke(line(1., 1., 7., 7.), white.clone(), st(vec![f32::INFINITY, 1.], -1e30), o))] });
    v.push(Seq { w: 8, h: 8, ctor: 0, calls: vec![Call::Op(Op::Stroke(line(1., 1., 7., 7.), white.clone(), st(vec![1., 2., 3.], f32::NAN), o))] });
    // finding 3: alpha out of range for every source kind
    let mut r = Rng::new(3, "c07-directed", 0);
    for _ in 0..12 {
        let src = gen_source(&mut r, 8, 8);
        for a in [1.5f32, 100., f32::INFINITY, -1., f32::NAN] {
            v.push(Seq { w: 8, h: 8, ctor: 0, calls: vec![Call::Op(Op::FillRect(1., 1., 5., 5., src.clone(), opts(BlendMode::SrcOver, a, true))), Call::Op(Op::Fill(line(0., 0., 8., 8.), src.clone(), opts(BlendMode::Multiply, a, true)))] });
        }
    }
    // findings 2, 9, 10: mask positions, layers under empty/oversized clips
    v.push(Seq { w: 2, h: 2, ctor: 0, calls: vec![Call::Op(Op::Mask(white.clone(), -1, 0, 2, 2, vec![255; 4]))] });
    v.push(Seq { w: 6, h: 3, ctor: 0, calls: vec![Call::Op(Op::PushClipRect(0, 0, 2, 2)), Call::Op(Op::PushClipRect(3, 0, 5, 2)), Call::Op(Op::PushLayer(0.5, BlendMode::SrcOver)), Call::Op(Op::PopLayer), Call::Op(Op::PopClip), Call::Op(Op::PopClip)] });
    v.push(Seq { w: 4, h: 4, ctor: 0, calls: vec![Call::Op(Op::PushClipRect(0, 0, 100, 100)), Call::Op(Op::PushLayer(0.5, BlendMode::SrcOver)), Call::Op(Op::Mask(white.clone(), 0, 0, 50, 50, vec![200; 2500])), Call::Op(Op::PopLayer), Call::Op(Op::PopClip)] });
    // finding 22: curve edge left of the path bounds
    v.push(Seq {
        w: 9,
        h: 9,
        ctor: 0,
        calls: vec![
            Call::Op(Op::SetTransform(Transform::new(2.7031553, 0.0, 0.0, 0.3603549, 0.0, 0.0))),
            Call::Op(Op::Fill(
                Path {
                    ops: vec![
                        PathOp::QuadTo(Point::new(5.595224, 14.53268), Point::new(4.1830416, 9.0)),
                        PathOp::LineTo(Point::new(1.1466821, 6.8767605)),
                        PathOp::LineTo(Point::new(8.862208, 1.0)),
                        PathOp::QuadTo(Point::new(0.48010126, 8.152065), Point::new(0.4273014, 8.899057)),
                        PathOp::LineTo(Point::new(2.0, 8.442749)),
                        PathOp::Close,
                    ],
                    winding: Winding::NonZero,
                },
                white.clone(),
                o,
            )),
        ],
    });
    // known findings 18 and 20: non-separable modes over ordinary pixels (chk build)
    v.push(Seq { w: 2, h: 1, ctor: 2, calls: vec![Call::Op(Op::Clear(0x01010100)), Call::Op(Op::FillRect(0., 0., 2., 1., SrcSpec::Solid(0x8000807e), opts(BlendMode::Color, 1., true)))] });
    for m in [BlendMode::Hue, BlendMode::Saturation, BlendMode::Color, BlendMode::Luminosity] {
        let mut r = Rng::new(5, "c07-nonsep", 0);
        let init: Vec<u32> = canary(&mut r, 64);
        let mut calls = vec![];
        for (i, p) in init.iter().enumerate().take(24) {
            calls.push(Call::Op(Op::FillRect((i % 8) as f32, (i / 8) as f32, 1., 1., SrcSpec::Solid(*p), opts(BlendMode::Src, 1., true))));
        }
        calls.push(Call::Op(Op::FillRect(0., 0., 8., 8., SrcSpec::Solid(0xc0803010), opts(m, 1., true))));
        v.push(Seq { w: 8, h: 8, ctor: 0, calls });
    }
    v
}

// ---------------------------------------------------------------------------------------------
// worker / supervisor

fn work_dir() -> String {
    let d = std::env::var("RV_WORK_DIR").unwrap_or_else(|_| "/verif/.work".to_string());
    let _ = std::fs::create_dir_all(&d);
    d
}

fn n_seqs(ctx: &Ctx) -> u64 {
    ctx.n(150_000, 20_000_000)
}

/// runs the cases of this process (a worker, a replay, or a sanitizer shard) in-process
fn run_local(ctx: &Ctx) -> Outcome {
    let mut out = Outcome::new(RULE);
    let wd = work_dir();
    let hb = std::env::var("RV_HEARTBEAT").ok();
    let dirs = directed_seqs();
    run_cases(ctx, &mut out, SubSpec { name: "directed", cases: dirs.len() as u64, exhaustive: false, max_secs: 600. }, |i, want, st| {
        if let Some(h) = &hb {
            let _ = std::fs::write(h, format!("directed {}\n", i));
        }
        run_seq_case(ctx, &dirs[i as usize], want, st, &wd)
    });
    run_cases(ctx, &mut out, SubSpec { name: "fuzz", cases: n_seqs(ctx), exhaustive: false, max_secs: if ctx.quick() { 60. } else { 1500. } }, |i, want, st| {
        if let Some(h) = &hb {
            let _ = std::fs::write(h, format!("fuzz {}\n", i));
        }
        // self-test of the supervisor only (never set by the registered commands)
        if let Ok(mode) = std::env::var("RV_C07_SELFTEST") {
            if i == 1003 && mode == "abort" {
                std::process::abort();
            }
            if i == 1003 && mode == "hang" {
                loop {
                    std::thread::sleep(Duration::from_secs(1));
                }
            }
        }
        let mut rng = ctx.rng("fuzz", i);
        let s = gen_seq(&mut rng);
        run_seq_case(ctx, &s, want, st, &wd)
    });
    // A curve that reaches the leftmost (or topmost, ...) point of its path at its very end, arriving steeply
    // from a control point just beside it: the forward-differenced edge may step a fraction of a cell beyond
    // the path's bounding box on the last rows, which is where the coverage masks end. Mostly aliased.
    run_cases(ctx, &mut out, SubSpec { name: "curves_ending_at_an_extreme_point_of_their_path", cases: ctx.n(30_000, 600_000) / ctx.scale_div.max(1), exhaustive: false, max_secs: if ctx.quick() { 30. } else { 600. } }, |i, want, st| {
        if let Some(h) = &hb {
            let _ = std::fs::write(h, format!("extreme {}\n", i));
        }
        let mut rng = ctx.rng("curves_ending_at_an_extreme_point_of_their_path", i);
        let (w, h) = (rng.int(8, 40) as i32, rng.int(8, 32) as i32);
        let q = |rng: &mut Rng, lo: f64, hi: f64| -> f32 { if rng.chance(0.5) { (rng.int((lo * 16.) as i64, (hi * 16.) as i64) as f32) / 16. } else { rng.range(lo, hi) as f32 } };
        // half of the time the curve ends inside the first pixel row of the surface, coming from above it: that
        // row is the first row of the coverage mask
        let top_row = rng.chance(0.5);
        let e = Point::new(q(&mut rng, 1., w as f64 * 0.6), if top_row { q(&mut rng, 0.05, 0.95) } else { q(&mut rng, -1., h as f64 * 0.5) });
        let c = Point::new(e.x + q(&mut rng, 0.05, 1.5), e.y - if top_row { q(&mut rng, 0.3, 1.4) } else { q(&mut rng, 0.2, 2.5) });
        let s0 = Point::new(e.x + q(&mut rng, 15., 60.), c.y - q(&mut rng, 1., 6.));
        let back = Point::new(s0.x, e.y + q(&mut rng, 1., 4.));
        let mut ops = vec![PathOp::MoveTo(s0)];
        if rng.chance(0.7) {
            ops.push(PathOp::QuadTo(c, e));
        } else {
            ops.push(PathOp::CubicTo(Point::new((s0.x + c.x) / 2., (s0.y + c.y) / 2.), c, e));
        }
        ops.push(PathOp::LineTo(back));
        ops.push(PathOp::Close);
        // the same shape turned: the extreme point may be the leftmost, rightmost, topmost or bottommost
        let turn = rng.below(4);
        let map = |p: Point| -> Point {
            match turn {
                0 => p,
                1 => Point::new(w as f32 - p.x, p.y),
                2 => Point::new(p.y, p.x),
                _ => Point::new(p.y, h as f32 - p.x),
            }
        };
        let ops: Vec<PathOp> = ops.iter().map(|o| match o {
            PathOp::MoveTo(p) => PathOp::MoveTo(map(*p)),
            PathOp::LineTo(p) => PathOp::LineTo(map(*p)),
            PathOp::QuadTo(a, p) => PathOp::QuadTo(map(*a), map(*p)),
            PathOp::CubicTo(a, b, p) => PathOp::CubicTo(map(*a), map(*b), map(*p)),
            PathOp::Close => PathOp::Close,
        }).collect();
        let path = Path { ops, winding: if rng.chance(0.5) { Winding::EvenOdd } else { Winding::NonZero } };
        let o = DrawOptions { blend_mode: if rng.chance(0.7) { BlendMode::SrcOver } else { random_mode(&mut rng) }, alpha: 1., antialias: if rng.chance(0.75) { AntialiasMode::None } else { AntialiasMode::Gray } };
        let mut calls = Vec::new();
        if rng.chance(0.2) {
            calls.push(Call::Op(Op::PushClip(path.clone())));
            calls.push(Call::Op(Op::PopClip));
        }
        calls.push(Call::Op(Op::Fill(path, SrcSpec::Solid(premul_pixel(&mut rng)), o)));
        let s = Seq { w, h, ctor: rng.below(3) as u8, calls };
        run_seq_case(ctx, &s, want, st, &wd)
    });
    out
}

const RULE: &str = "grammar-generated call sequences (1..12 calls) over DrawTarget constructors, fill, stroke (dashed and not), fill_rect, clear, mask, draw_image_*, push/pop clip(_rect), push/pop layer, set_transform, copy/blend_surface(_with_alpha), byte views, write_png, PathBuilder (arc, rect, cubic), Path::{flatten, contains_point, transform} and all Source constructors, with boundary-biased values inside the stated domain \
(device-space geometry incl. stroke outset within +-3990; surfaces 0..64; transforms with scale 1e-4..1e4 or singular; >= 1 gradient stop at increasing positions, positive radii; dash arrays all non-negative or with a non-positive/NaN total, <= 5000 dashes; any dash offset; any alpha/opacity incl. NaN and infinities; any clip rect incl. inverted and i32 extremes; copy rects within +-1e8). Executed in worker subprocesses in the chk build (overflow checks and debug assertions on in every crate) under catch_unwind with a heartbeat; \
a panic, an abort, an iteration-bound overrun (verif::tick) or a case that finishes in neither of two isolated re-runs is a violation. Non-trivial: a sequence of at least two calls; distinct = hash of the sequence.";

pub fn run(ctx: &Ctx) -> Outcome {
    let is_worker = std::env::var("RV_WORKER").is_ok();
    if is_worker || ctx.replay.is_some() || ctx.scale_div > 1 || ctx.miri {
        let mut o = run_local(ctx);
        domain_notes(&mut o);
        return o;
    }
    supervise(ctx)
}

fn domain_notes(o: &mut Outcome) {
    o.assume("domain decisions where the statement is silent: transform scale factors within 1e-4..1e4 (or exactly singular); gradient stop positions increasing (duplicates and values slightly outside [0,1] included); radial radii >= 1e-6; image sources keep the image-space coordinates of the surface within the 16.16 range (else a solid source is used); surfaces <= 64 px; flatten tolerances >= 1e-3");
    o.assume("routine cases stay below 5000 dashes per stroke so that slow-but-bounded rasterisation is not mistaken for a hang; hangs are decided by iteration bounds first and by two isolated re-runs with a 10 minute limit second");
}

struct Worker {
    child: std::process::Child,
    shard: u64,
    hb_path: String,
    ev_path: String,
    last_hb: String,
    last_change: Instant,
    offset: u64,
}

fn spawn_worker(ctx: &Ctx, shard: u64, nshards: u64, offset: u64, wd: &str) -> Worker {
    let exe = std::env::current_exe().expect("current exe");
    let hb_path = format!("{}/c07-hb-{}-{}", wd, std::process::id(), shard);
    let ev_path = format!("{}/c07-ev-{}-{}-{}.json", wd, std::process::id(), shard, offset);
    let _ = std::fs::write(&hb_path, "start\n");
    let child = std::process::Command::new(exe)
        .args(["C07", "--tier", if ctx.quick() { "quick" } else { "thorough" }, "--seed", &ctx.seed.to_string(), "--threads", "1", "--shard", &format!("{}/{}", offset, nshards), "--evidence", &ev_path])
        .env("RV_WORKER", "1")
        .env("RV_HEARTBEAT", &hb_path)
        .env("RV_WORK_DIR", wd)
        .stdout(std::process::Stdio::piped())
        .stderr(std::process::Stdio::null())
        .spawn()
        .expect("spawn worker");
    Worker { child, shard, hb_path, ev_path, last_hb: String::new(), last_change: Instant::now(), offset }
}

fn parse_hb(s: &str) -> Option<(String, u64)> {
    let mut it = s.split_whitespace();
    let sub = it.next()?.to_string();
    let idx = it.next()?.parse().ok()?;
    Some((sub, idx))
}

/// re-runs one case alone; Some(true) finished, Some(false) timed out
fn rerun_alone(ctx: &Ctx, sub: &str, idx: u64, wd: &str, limit: Duration) -> bool {
    let exe = std::env::current_exe().expect("current exe");
    let rp = format!("{}/c07-rerun-{}-{}.json", wd, std::process::id(), idx);
    let mut j = J::obj();
    j.set("seed", J::Int(ctx.seed as i64));
    j.set("tier", J::s(if ctx.quick() { "quick" } else { "thorough" }));
    j.set("sub", J::s(sub));
    j.set("index", J::Int(idx as i64));
    let _ = std::fs::write(&rp, j.to_string_pretty());
    let mut child = std::process::Command::new(exe).args(["C07", "--replay", &rp]).env("RV_WORK_DIR", wd).stdout(std::process::Stdio::null()).stderr(std::process::Stdio::null()).spawn().expect("spawn rerun");
    let t0 = Instant::now();
    loop {
        if let Ok(Some(_)) = child.try_wait() {
            let _ = std::fs::remove_file(&rp);
            return true;
        }
        if t0.elapsed() > limit {
            let _ = child.kill();
            let _ = child.wait();
            let _ = std::fs::remove_file(&rp);
            return false;
        }
        std::thread::sleep(Duration::from_millis(100));
    }
}

fn supervise(ctx: &Ctx) -> Outcome {
    let mut out = Outcome::new(RULE);
    domain_notes(&mut out);
    let wd = work_dir();
    let nshards = ctx.threads.max(1) as u64;
    let mut workers: Vec<Worker> = (0..nshards).map(|s| spawn_worker(ctx, s, nshards, s, &wd)).collect();
    let secs = |name: &str, default: u64| std::env::var(name).ok().and_then(|v| v.parse().ok()).unwrap_or(default);
    let stale_limit = Duration::from_secs(secs("RV_C07_STALE_SECS", 60));
    let rerun_limit = Duration::from_secs(secs("RV_C07_RERUN_SECS", 600));
    let mut finished = 0;
    let mut merged_stats = Stats::default();
    let mut restarts = 0u64;
    let total = nshards as usize;
    let mut done = vec![false; total];
    while finished < total {
        std::thread::sleep(Duration::from_millis(150));
        for wi in 0..workers.len() {
            if done[wi] {
                continue;
            }
            let hb = std::fs::read_to_string(&workers[wi].hb_path).unwrap_or_default();
            if hb != workers[wi].last_hb {
                workers[wi].last_hb = hb.clone();
                workers[wi].last_change = Instant::now();
            }
            let status = workers[wi].child.try_wait().ok().flatten();
            let mut restart_after: Option<(String, u64)> = None;
            if let Some(st) = status {
                let code = st.code();
                if matches!(code, Some(0) | Some(1) | Some(2)) {
                    // normal end: collect
                    collect(&workers[wi], &mut out, &mut merged_stats);
                    done[wi] = true;
                    finished += 1;
                    continue;
                }
                // the worker died: abort, allocation failure, stack overflow, signal
                if let Some((sub, idx)) = parse_hb(&hb) {
                    out.violation_count += 1;
                    out.violations.push(Violation { sub: sub.clone(), index: idx, what: format!("the worker process died ({:?}) while executing this case: abort, allocation failure or stack overflow", st), desc: J::Null });
                    restart_after = Some((sub, idx));
                } else {
                    out.inconclusive(format!("a worker died ({:?}) before its first heartbeat", st));
                    done[wi] = true;
                    finished += 1;
                    continue;
                }
            } else if workers[wi].last_change.elapsed() > stale_limit {
                // no progress for a minute: hang candidate
                let _ = workers[wi].child.kill();
                let _ = workers[wi].child.wait();
                if let Some((sub, idx)) = parse_hb(&hb) {
                    let a = rerun_alone(ctx, &sub, idx, &wd, rerun_limit);
                    let b = if a { true } else { rerun_alone(ctx, &sub, idx, &wd, rerun_limit) };
                    if !a && !b {
                        out.violation_count += 1;
                        out.violations.push(Violation { sub: sub.clone(), index: idx, what: "the case did not finish within 60 s in the worker nor within 10 minutes in two isolated re-runs".to_string(), desc: J::Null });
                    } else {
                        merged_stats.add("slow_cases_that_finished_when_rerun_alone", 1);
                    }
                    restart_after = Some((sub, idx));
                } else {
                    out.inconclusive("a worker made no progress before its first heartbeat".to_string());
                    done[wi] = true;
                    finished += 1;
                    continue;
                }
            }
            if let Some((sub, idx)) = restart_after {
                restarts += 1;
                if restarts > 40 {
                    out.inconclusive("too many worker restarts".to_string());
                    done[wi] = true;
                    finished += 1;
                    continue;
                }
                // partial evidence of the dead worker is lost; continue after the failing case
                let shard = workers[wi].shard;
                let next = if sub == "fuzz" { idx + nshards } else { workers[wi].offset };
                let _ = std::fs::remove_file(&workers[wi].hb_path);
                workers[wi] = spawn_worker(ctx, shard, nshards, next, &wd);
                if sub != "fuzz" {
                    // a directed case killed the worker: do not loop on it
                    out.inconclusive(format!("directed case {} killed a worker; the remaining cases of that shard were skipped", idx));
                    let _ = workers[wi].child.kill();
                    let _ = workers[wi].child.wait();
                    done[wi] = true;
                    finished += 1;
                }
            }
        }
    }
    for w in &workers {
        let _ = std::fs::remove_file(&w.hb_path);
    }
    for site in raqote::verif::SITES.iter().filter(|s| s.starts_with("shader:") || s.starts_with("blitter:")) {
        if merged_stats.get(&format!("worker_hook:{}", site)) == 0 && ctx.scale_div == 1 {
            out.inconclusive(format!("no worker ever reached {}", site));
        }
    }
    merged_stats.add("worker_processes", nshards);
    merged_stats.add("worker_restarts", restarts);
    out.stats.merge(&merged_stats);
    // fill in the descriptions of violations that came from dead workers
    for v in out.violations.iter_mut() {
        if v.desc == J::Null && v.sub == "fuzz" {
            let mut rng = ctx.rng("fuzz", v.index);
            v.desc = seq_json(&gen_seq(&mut rng));
        }
    }
    out
}

fn collect(w: &Worker, out: &mut Outcome, stats: &mut Stats) {
    let text = match std::fs::read_to_string(&w.ev_path) {
        Ok(t) => t,
        Err(_) => {
            out.inconclusive(format!("worker {} left no evidence file", w.shard));
            return;
        }
    };
    let _ = std::fs::remove_file(&w.ev_path);
    let j = match json::parse(&text) {
        Ok(j) => j,
        Err(e) => {
            out.inconclusive(format!("worker {} evidence unreadable: {}", w.shard, e));
            return;
        }
    };
    let cov = j.get("coverage").cloned().unwrap_or(J::Null);
    out.evaluations += cov.get("evaluations").and_then(|v| v.as_i64()).unwrap_or(0) as u64;
    out.nontrivial += cov.get("nontrivial_evaluations").and_then(|v| v.as_i64()).unwrap_or(0) as u64;
    out.add_distinct(cov.get("distinct_nontrivial").and_then(|v| v.as_i64()).unwrap_or(0) as u64);
    if let Some(J::Obj(o)) = cov.get("observed") {
        for (k, v) in o {
            stats.add(k, v.as_i64().unwrap_or(0) as u64);
        }
    }
    // the hook counters live in the worker processes
    if let Some(J::Obj(o)) = cov.get("hooks") {
        for (k, v) in o {
            stats.add(&format!("worker_hook:{}", k), v.as_i64().unwrap_or(0) as u64);
        }
    }
    if out.samples.len() < 4 {
        if let Some(a) = cov.get("samples").and_then(|s| s.as_arr()) {
            for s in a.iter().take(2) {
                out.samples.push(s.clone());
            }
        }
    }
    if let Some(J::Obj(o)) = cov.get("known_findings_observed") {
        for (k, v) in o {
            let e = out.known_hits.entry(k.clone()).or_insert((0, String::new()));
            e.0 += v.as_i64().unwrap_or(0) as u64;
        }
    }
    if let Some(a) = cov.get("violations_list").and_then(|s| s.as_arr()) {
        for v in a {
            out.violation_count += 1;
            if out.violations.len() < 8 {
                out.violations.push(Violation {
                    sub: v.get("sub").and_then(|s| s.as_str()).unwrap_or("").to_string(),
                    index: v.get("index").and_then(|s| s.as_i64()).unwrap_or(0) as u64,
                    what: v.get("what").and_then(|s| s.as_str()).unwrap_or("").to_string(),
                    desc: v.get("case").cloned().unwrap_or(J::Null),
                });
            }
        }
    }
    if let Some(a) = cov.get("inconclusive").and_then(|s| s.as_arr()) {
        for s in a {
            out.inconclusive(s.as_str().unwrap_or("").to_string());
        }
    }
}
