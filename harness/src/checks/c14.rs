//! C14 - optimised paths give the same pixels as the general path (exact differentials on
//! identical canary destinations).

use crate::gen::*;
use crate::json::J;
use crate::ops::*;
use crate::runner::*;
use crate::util::*;
use raqote::*;

fn rect_path(x: f32, y: f32, w: f32, h: f32) -> Path {
    let mut pb = PathBuilder::new();
    pb.rect(x, y, w, h);
    pb.finish()
}

fn rng_free_pad(w: i32) -> i32 {
    // the right edge of the layer's clip: a bit inside the surface when there is room
    if w > 4 { 1 } else { 0 }
}

pub fn first_diff(a: &[u32], b: &[u32], w: i32) -> Option<String> {
    a.iter().zip(b.iter()).position(|(x, y)| x != y).map(|i| format!("({},{}): {} vs {}", i as i32 % w, i as i32 / w, hex(a[i]), hex(b[i])))
}

pub fn run(ctx: &Ctx) -> Outcome {
    let mut out = Outcome::new(
        "pairs/triples of renders on identical canary destinations that must be bit-identical: (a) fill_rect(integer rect) under identity/no clip vs fill(PathBuilder::rect), (b) the same fill_rect with a surface-covering clip rect pushed, \
         (c) clear(c) with and without a covering clip rect, (d) draw_image_at(integer x, y) vs fill of the image rectangle with the translated image source. Rects include zero/negative sizes and partly/wholly off-surface positions; all 28 modes, all source kinds, alpha, both AA modes. \
         Non-trivial: the call changed at least one pixel and left at least one unchanged; distinct = hash of the case.",
    );
    let secs = if ctx.quick() { 30. } else { 600. };
    run_cases(ctx, &mut out, SubSpec { name: "fill_rect_routes", cases: ctx.n(300_000, 4_000_000), exhaustive: false, max_secs: secs }, |i, want, st| {
        let mut rng = ctx.rng("fill_rect_routes", i);
        let wide = rng.chance(0.06);
        let very_wide = rng.chance(0.002);
        let w = if very_wide { rng.int(1025, 2100) } else if wide { rng.int(33, 90) } else { rng.int(1, 16) } as i32;
        let h = if very_wide { 1 } else if wide { rng.int(1, 4) } else { rng.int(1, 16) } as i32;
        let n = (w * h) as usize;
        let init = canary(&mut rng, n);
        let (x, y) = (rng.int(-4, w as i64 + 2) as f32, rng.int(-4, h as i64 + 2) as f32);
        let (rw, rh) = match rng.below(8) {
            _ if very_wide => (rng.int(1000, w as i64 + 4) as f32, rng.int(1, 2) as f32),
            0 => (0., rng.int(-2, 4) as f32),
            1 => (rng.int(-6, -1) as f32, rng.int(-6, 6) as f32),
            2 => (rng.int(1, 6) as f32, rng.int(-6, -1) as f32),
            // far beyond the surface in one direction or both (within the working range of +-32767 px)
            3 if rng.chance(0.15) => {
                let far = |rng: &mut crate::prng::Rng| *rng.pick(&[4000i64, 8190, 8191, 8192, 8193, 9000, 16384, 20000, 32000]) as f32;
                match rng.below(3) {
                    0 => (rng.int(1, w as i64 + 4) as f32, far(&mut rng)),
                    1 => (far(&mut rng), rng.int(1, h as i64 + 4) as f32),
                    _ => (far(&mut rng), far(&mut rng)),
                }
            }
            _ => (rng.int(1, w as i64 + 4) as f32, rng.int(1, h as i64 + 4) as f32),
        };
        let src = random_source(&mut rng, w, h, 3);
        let o = DrawOptions { blend_mode: random_mode(&mut rng), alpha: random_alpha(&mut rng), antialias: if rng.chance(0.7) { AntialiasMode::Gray } else { AntialiasMode::None } };
        // context: none, an open layer, or a layer pushed under a clip rect that is popped while the layer is open
        let context = rng.below(6);
        let (cx0, cy0) = (rng.int(0, w as i64 / 2) as i32, rng.int(0, h as i64 / 2) as i32);
        let layer_mode = random_mode(&mut rng);
        let enter = |dt: &mut DrawTarget| match context {
            0 => dt.push_layer_with_blend(0.8, layer_mode),
            1 => {
                dt.push_clip_rect(IntRect::new(IntPoint::new(cx0, cy0), IntPoint::new(w - rng_free_pad(w), h)));
                dt.push_layer_with_blend(1.0, layer_mode);
                dt.pop_clip();
            }
            _ => {}
        };
        let leave = |dt: &mut DrawTarget| {
            if context <= 1 {
                dt.pop_layer();
            }
        };
        let mut a = DrawTarget::from_vec(w, h, init.clone());
        enter(&mut a);
        src.with(|s| a.fill_rect(x, y, rw, rh, s, &o));
        leave(&mut a);
        let mut b = DrawTarget::from_vec(w, h, init.clone());
        enter(&mut b);
        src.with(|s| b.fill(&rect_path(x, y, rw, rh), s, &o));
        leave(&mut b);
        let mut c = DrawTarget::from_vec(w, h, init.clone());
        enter(&mut c);
        let big = rng.chance(0.5);
        if big {
            c.push_clip_rect(IntRect::new(IntPoint::new(-5, -5), IntPoint::new(w + 5, h + 5)));
        } else {
            c.push_clip_rect(IntRect::new(IntPoint::new(0, 0), IntPoint::new(w, h)));
        }
        src.with(|s| c.fill_rect(x, y, rw, rh, s, &o));
        c.pop_clip();
        leave(&mut c);
        let mut co = CaseOut::default();
        co.hash = crate::prng::hash_str(&format!("{:?}{:?}{:?}{:?}", (w, h, x, y, rw, rh), src, o, init));
        let changed = a.get_data().iter().zip(init.iter()).filter(|(p, q)| p != q).count();
        co.nontrivial = changed > 0 && changed < n;
        st.add("fast_vs_path_pairs", 1);
        st.add("fast_vs_clipped_pairs", 1);
        if changed > 0 {
            st.add("cases_that_changed_pixels", 1);
        }
        if let Some(d) = first_diff(a.get_data(), b.get_data(), w) {
            co.viol("C14", format!("fill_rect({},{},{},{}) and fill(PathBuilder::rect) differ at {} (mode {})", x, y, rw, rh, d, mode_name(o.blend_mode)));
        }
        if let Some(d) = first_diff(a.get_data(), c.get_data(), w) {
            co.viol("C14", format!("fill_rect({},{},{},{}) without and with a surface-covering clip rect differ at {} (mode {})", x, y, rw, rh, d, mode_name(o.blend_mode)));
        }
        if want || !co.violations.is_empty() {
            let mut d = J::obj();
            d.set("surface", J::s(&format!("{}x{}", w, h)));
            d.set("initial_pixels", pixels_json(&init));
            d.set("call", Op::FillRect(x, y, rw, rh, src.clone(), o).desc());
            d.set("covering_clip_larger_than_surface", J::Bool(big));
            d.set("context", J::s(match context { 0 => "inside a layer", 1 => "inside a layer whose clip rect was popped while it is open", _ => "none" }));
            co.desc = Some(d);
        }
        co
    });

    // gradient sources built from the enum variants directly, with any matrix as their transform (the constructors
    // only ever make a few kinds of matrices): the fast route and the path route must still agree
    run_cases(ctx, &mut out, SubSpec { name: "fill_rect_routes_with_hand_built_gradients", cases: ctx.n(40_000, 600_000), exhaustive: false, max_secs: secs / 2. }, |i, want, st| {
        let mut rng = ctx.rng("fill_rect_routes_with_hand_built_gradients", i);
        let w = rng.int(2, 16) as i32;
        let h = rng.int(2, 16) as i32;
        let n = (w * h) as usize;
        let init = canary(&mut rng, n);
        let stops = random_stops(&mut rng);
        let g = gradient_of(&stops);
        let spread = spread_of(rng.below(3) as u8);
        // device -> gradient space: scales that bring the surface into the unit interval, shears on one side or
        // both, rotations
        let sc = 1. / rng.range(2., 30.) as f32;
        let m = match rng.below(6) {
            0 => Transform::new(sc, 0., sc * rng.range(-2., 2.) as f32, sc, rng.range(-1., 1.) as f32, 0.),
            1 => Transform::new(sc, sc * rng.range(-2., 2.) as f32, 0., sc, rng.range(-1., 1.) as f32, 0.),
            2 => Transform::scale(sc, sc * rng.range(0.3, 3.) as f32),
            3 => Transform::rotation(euclid::Angle::radians(rng.range(0., 6.28) as f32)).then_scale(sc, sc),
            4 => Transform::new(sc, 0., 0., 0., 0., 0.5),
            _ => Transform::new(rng.range(-0.2, 0.2) as f32, rng.range(-0.2, 0.2) as f32, rng.range(-0.2, 0.2) as f32, rng.range(-0.2, 0.2) as f32, rng.range(-1., 1.) as f32, rng.range(-1., 1.) as f32),
        };
        let src = match rng.below(2) {
            0 => Source::LinearGradient(g, spread, m),
            _ => Source::RadialGradient(g, spread, m),
        };
        let (x, y) = (rng.int(-2, w as i64 - 1) as f32, rng.int(-2, h as i64 - 1) as f32);
        let (rw, rh) = (rng.int(1, w as i64 + 2) as f32, rng.int(1, h as i64 + 2) as f32);
        let o = DrawOptions { blend_mode: random_mode(&mut rng), alpha: random_alpha(&mut rng), antialias: if rng.chance(0.7) { AntialiasMode::Gray } else { AntialiasMode::None } };
        let mut a = DrawTarget::from_vec(w, h, init.clone());
        a.fill_rect(x, y, rw, rh, &src, &o);
        let mut b = DrawTarget::from_vec(w, h, init.clone());
        b.fill(&rect_path(x, y, rw, rh), &src, &o);
        let mut co = CaseOut::default();
        co.hash = crate::prng::hash_str(&format!("{:?}{:?}{:?}{:?}", (w, h, x, y, rw, rh), m, o, init));
        let changed = a.get_data().iter().zip(init.iter()).filter(|(p, q)| p != q).count();
        co.nontrivial = changed > 0 && changed < n;
        st.add("hand_built_gradient_pairs", 1);
        if let Some(d) = first_diff(a.get_data(), b.get_data(), w) {
            co.viol("C14", format!("fill_rect({},{},{},{}) and fill(PathBuilder::rect) differ at {} for a gradient variant with the transform {} (mode {})", x, y, rw, rh, d, transform_str(&m), mode_name(o.blend_mode)));
        }
        if want || !co.violations.is_empty() {
            let mut d = J::obj();
            d.set("surface", J::s(&format!("{}x{}", w, h)));
            d.set("gradient_transform", J::s(&transform_str(&m)));
            d.set("rect", J::s(&format!("{},{} {}x{}", x, y, rw, rh)));
            d.set("options", J::s(&format!("{} alpha {} {:?}", mode_name(o.blend_mode), o.alpha, o.antialias)));
            d.set("initial_pixels", pixels_json(&init));
            co.desc = Some(d);
        }
        co
    });

    run_cases(ctx, &mut out, SubSpec { name: "clear_routes", cases: ctx.n(20_000, 300_000), exhaustive: false, max_secs: secs / 3. }, |i, want, st| {
        let mut rng = ctx.rng("clear_routes", i);
        let w = rng.int(1, 16) as i32;
        let h = rng.int(1, 16) as i32;
        let init = canary(&mut rng, (w * h) as usize);
        let c = premul_pixel(&mut rng);
        let mut a = DrawTarget::from_vec(w, h, init.clone());
        let t = random_transform(&mut rng, w as f64, h as f64);
        a.set_transform(&t);
        a.clear(solid(c));
        let mut b = DrawTarget::from_vec(w, h, init.clone());
        b.set_transform(&t);
        b.push_clip_rect(IntRect::new(IntPoint::new(-rng.int(0, 3) as i32, 0), IntPoint::new(w + rng.int(0, 3) as i32, h)));
        b.clear(solid(c));
        b.pop_clip();
        let mut co = CaseOut::default();
        co.hash = crate::prng::hash_str(&format!("{:?}{:?}{}", (w, h), init, c));
        co.nontrivial = true;
        st.add("clear_pairs", 1);
        if let Some(d) = first_diff(a.get_data(), b.get_data(), w) {
            co.viol("C14", format!("clear({}) without and with a covering clip rect differ at {}", hex(c), d));
        }
        if a.get_data().iter().any(|p| *p != c) {
            co.viol("C14", format!("clear({}) did not set every pixel", hex(c)));
        }
        // second round on the same two targets: the pixels change behind the drawing calls' back (through the word
        // or the byte view) or through a call, and the surface is cleared again - to the same colour mostly
        let how = rng.below(4);
        let spots: Vec<(usize, u32)> = (0..rng.int(1, 4)).map(|_| (rng.below((w * h) as u64) as usize, premul_pixel(&mut rng))).collect();
        for dt in [&mut a, &mut b] {
            match how {
                0 => {
                    for (k, v) in &spots {
                        dt.get_data_mut()[*k] = *v;
                    }
                }
                1 => {
                    for (k, v) in &spots {
                        dt.get_data_u8_mut()[4 * k..4 * k + 4].copy_from_slice(&v.to_ne_bytes());
                    }
                }
                2 => {
                    dt.set_transform(&Transform::identity());
                    dt.fill_rect((spots[0].0 as i32 % w) as f32, (spots[0].0 as i32 / w) as f32, 1., 1., &Source::Solid(solid(spots[0].1 | 0xff000000)), &opts(BlendMode::Src, 1., true));
                }
                _ => {}
            }
        }
        let c2 = if rng.chance(0.7) { c } else { premul_pixel(&mut rng) };
        a.clear(solid(c2));
        b.push_clip_rect(IntRect::new(IntPoint::new(0, 0), IntPoint::new(w, h)));
        b.clear(solid(c2));
        b.pop_clip();
        st.add("clear_pairs_after_raw_writes_or_draws", 1);
        if let Some(d) = first_diff(a.get_data(), b.get_data(), w) {
            co.viol("C14", format!("a second clear({}) without and with a covering clip rect differ at {} (after {})", hex(c2), d, ["writes through get_data_mut", "writes through get_data_u8_mut", "a fill_rect", "nothing"][how as usize]));
        }
        if a.get_data().iter().any(|p| *p != c2) {
            co.viol("C14", format!("a second clear({}) did not set every pixel (after {})", hex(c2), ["writes through get_data_mut", "writes through get_data_u8_mut", "a fill_rect", "nothing"][how as usize]));
        }
        if want || !co.violations.is_empty() {
            co.desc = Some(J::s(&format!("clear({}) on {}x{} under transform {}", hex(c), w, h, transform_str(&t))));
        }
        co
    });

    run_cases(ctx, &mut out, SubSpec { name: "draw_image_at_routes", cases: ctx.n(150_000, 2_000_000), exhaustive: false, max_secs: secs }, |i, want, st| {
        let mut rng = ctx.rng("draw_image_at_routes", i);
        let w = rng.int(1, 16) as i32;
        let h = rng.int(1, 16) as i32;
        let n = (w * h) as usize;
        let init = canary(&mut rng, n);
        // now and then the image is exactly as large as the surface and lands exactly on it
        let fits = rng.chance(0.1);
        let iw = if fits { w } else { rng.int(1, 7) as i32 };
        let ih = if fits { h } else { rng.int(1, 7) as i32 };
        let data = random_image_data(&mut rng, iw, ih);
        let (x, y) = if fits && rng.chance(0.8) { (0., 0.) } else { (rng.int(-8, w as i64 + 2) as f32, rng.int(-8, h as i64 + 2) as f32) };
        let o = DrawOptions { blend_mode: if fits && rng.chance(0.5) { BlendMode::Src } else { random_mode(&mut rng) }, alpha: random_alpha(&mut rng), antialias: if rng.chance(0.7) { AntialiasMode::Gray } else { AntialiasMode::None } };
        let img = Image { width: iw, height: ih, data: &data[..] };
        // both routes inside the same context: none, an open layer, an open layer whose clip was popped
        let context = rng.below(4);
        let enter = |dt: &mut DrawTarget| match context {
            0 => dt.push_layer_with_blend(0.5, BlendMode::SrcOver),
            1 => {
                dt.push_clip_rect(IntRect::new(IntPoint::new(1, 0), IntPoint::new(w, h - 1)));
                dt.push_layer(1.0);
                dt.pop_clip();
            }
            _ => {}
        };
        let leave = |dt: &mut DrawTarget| {
            if context <= 1 {
                dt.pop_layer();
            }
        };
        let mut a = DrawTarget::from_vec(w, h, init.clone());
        enter(&mut a);
        a.draw_image_at(x, y, &img, &o);
        leave(&mut a);
        let mut b = DrawTarget::from_vec(w, h, init.clone());
        enter(&mut b);
        let filter = if rng.chance(0.5) { FilterMode::Nearest } else { FilterMode::Bilinear };
        let extend = if rng.chance(0.5) { ExtendMode::Pad } else { ExtendMode::Repeat };
        let src = Source::Image(img, extend, filter, Transform::translation(-x, -y));
        b.fill(&rect_path(x, y, iw as f32, ih as f32), &src, &o);
        leave(&mut b);
        let mut co = CaseOut::default();
        co.hash = crate::prng::hash_str(&format!("{:?}{:?}{:?}{:?}{}", (w, h, x, y, iw, ih), data, o, init, context));
        let changed = a.get_data().iter().zip(init.iter()).filter(|(p, q)| p != q).count();
        co.nontrivial = changed > 0 && changed < n;
        st.add("draw_image_at_pairs", 1);
        if let Some(d) = first_diff(a.get_data(), b.get_data(), w) {
            co.viol("C14", format!("draw_image_at({},{}) and filling the image rectangle with the translated image source differ at {} (mode {})", x, y, d, mode_name(o.blend_mode)));
        }
        if want || !co.violations.is_empty() {
            let mut d = J::obj();
            d.set("surface", J::s(&format!("{}x{}", w, h)));
            d.set("initial_pixels", pixels_json(&init));
            d.set("call", Op::DrawImageAt(x, y, Img { w: iw, h: ih, data: data.clone() }, o).desc());
            d.set("general_route_source", J::s(&format!("{:?} {}", match extend { ExtendMode::Pad => "Pad", ExtendMode::Repeat => "Repeat" }, if filter == FilterMode::Nearest { "Nearest" } else { "Bilinear" })));
            co.desc = Some(d);
        }
        co
    });
    out
}
