//! C01 - polygon fill coverage equals the exact 4x4 supersampling model.
//!
//! Oracle: exact integer/rational scanline model (i128) of the property statement, with an
//! explicit ambiguity band for the truncated 16.16 slopes (DESIGN.md, C01). Observation:
//! white SrcOver fill on a transparent target, whose alpha is the coverage byte.

use crate::json::J;
use crate::prng::{hash_u64s, Rng};
use crate::runner::*;
use crate::util::*;
use raqote::*;

/// vertices in quarter pixels
#[derive(Clone, Debug)]
pub enum QOp {
    Move(i64, i64),
    Line(i64, i64),
    Close,
}

#[derive(Clone, Debug)]
pub struct Case {
    pub w: i32,
    pub h: i32,
    pub ops: Vec<QOp>,
    pub evenodd: bool,
    pub aa: bool,
}

impl Case {
    fn path(&self) -> Path {
        let mut ops = Vec::new();
        for op in &self.ops {
            match *op {
                QOp::Move(x, y) => ops.push(PathOp::MoveTo(Point::new(x as f32 / 4., y as f32 / 4.))),
                QOp::Line(x, y) => ops.push(PathOp::LineTo(Point::new(x as f32 / 4., y as f32 / 4.))),
                QOp::Close => ops.push(PathOp::Close),
            }
        }
        Path { ops, winding: if self.evenodd { Winding::EvenOdd } else { Winding::NonZero } }
    }
    fn hash(&self) -> u64 {
        let mut v = vec![self.w as u64, self.h as u64, self.evenodd as u64, self.aa as u64];
        for op in &self.ops {
            match *op {
                QOp::Move(x, y) => v.extend_from_slice(&[1, x as u64, y as u64]),
                QOp::Line(x, y) => v.extend_from_slice(&[2, x as u64, y as u64]),
                QOp::Close => v.push(3),
            }
        }
        hash_u64s(&v)
    }
    fn desc(&self) -> J {
        let mut o = J::obj();
        o.set("surface", J::s(&format!("{}x{}", self.w, self.h)));
        o.set("path", J::s(&path_str(&self.path())));
        o.set("antialias", J::Bool(self.aa));
        o
    }
}

/// Edges (quarter units) of the implicitly closed subpaths, by the fill semantics of the
/// statement: every subpath is closed, a command after Close continues from the subpath start.
pub fn edges(ops: &[QOp]) -> Vec<(i64, i64, i64, i64)> {
    let mut e = Vec::new();
    let mut cur: Option<(i64, i64)> = None;
    let mut first: Option<(i64, i64)> = None;
    for op in ops {
        match *op {
            QOp::Move(x, y) => {
                if let (Some(c), Some(f)) = (cur, first) {
                    e.push((c.0, c.1, f.0, f.1));
                }
                cur = Some((x, y));
                first = cur;
            }
            QOp::Line(x, y) => {
                if cur.is_none() {
                    cur = Some((x, y));
                    first = cur;
                }
                let c = cur.unwrap();
                e.push((c.0, c.1, x, y));
                cur = Some((x, y));
            }
            QOp::Close => {
                if let (Some(c), Some(f)) = (cur, first) {
                    e.push((c.0, c.1, f.0, f.1));
                }
                cur = first;
            }
        }
    }
    if let (Some(c), Some(f)) = (cur, first) {
        e.push((c.0, c.1, f.0, f.1));
    }
    e
}

fn floor_div(a: i128, b: i128) -> i128 {
    let q = a / b;
    if (a % b != 0) && ((a < 0) != (b < 0)) {
        q - 1
    } else {
        q
    }
}

pub struct RowModel {
    /// per cell: 0 = not covered, 1 = covered, 2 = ambiguous
    pub cells: Vec<u8>,
}

/// The covered cells of sample row `cy` (quarter units) for cells 0..4w.
pub fn model_row(edges: &[(i64, i64, i64, i64)], cy: i64, w: i32, evenodd: bool, crossings: &mut Vec<(i64, i64, i32)>) -> RowModel {
    crossings.clear();
    for &(ax, ay, bx, by) in edges {
        if ay == by {
            continue;
        }
        let (x1, y1, x2, y2, wind) = if ay < by { (ax, ay, bx, by, 1) } else { (bx, by, ax, ay, -1) };
        if !(y1 <= cy && cy < y2) {
            continue;
        }
        // exact crossing x* = n/d (quarter units)
        let d = (y2 - y1) as i128;
        let n = x1 as i128 * d + (cy - y1) as i128 * (x2 - x1) as i128;
        // rounded crossing r = floor(x + 1/2) for some x in [x* - e, x* + e], e = (cy - y1 + 1) / 2^14
        let steps = (cy - y1 + 1) as i128;
        let den = 32768 * d;
        let base = n * 32768 + 16384 * d;
        let r_lo = floor_div(base - 2 * steps * d, den);
        let r_hi = floor_div(base + 2 * steps * d, den);
        crossings.push((r_lo as i64, r_hi as i64, wind));
    }
    let ncells = (4 * w) as usize;
    let mut cells = vec![0u8; ncells];
    for c in 0..ncells as i64 {
        let mut amb = false;
        let mut wsum = 0;
        for &(lo, hi, wd) in crossings.iter() {
            if hi <= c {
                wsum += wd;
            } else if lo <= c {
                amb = true;
                break;
            }
        }
        cells[c as usize] = if amb {
            2
        } else {
            let inside = if evenodd { wsum & 1 != 0 } else { wsum != 0 };
            inside as u8
        };
    }
    RowModel { cells }
}

fn allowed_aa(kmin: u32, kmax: u32, alpha: u32) -> bool {
    for k in kmin..=kmax {
        let ok = match k {
            0 => alpha == 0,
            16 => alpha == 255,
            _ => alpha == 16 * k || alpha == 16 * k - 1,
        };
        if ok {
            return true;
        }
    }
    false
}

pub struct Checked {
    pub asserted: u64,
    pub ambiguous: u64,
    pub partial: u64,
    pub full: u64,
    pub empty: u64,
    pub violation: Option<String>,
}

/// Runs the real fill and compares every pixel with the model.
pub fn check_case(case: &Case, dt: &mut DrawTarget) -> Checked {
    let path = case.path();
    check_case_drawn(case, dt, &path, &Transform::identity())
}

/// `case` is the device-space polygon the model is evaluated on; what is drawn is `path` under `t`
/// (the same polygon for the identity; its exact pre-image for the grid-preserving transforms)
pub fn check_case_drawn(case: &Case, dt: &mut DrawTarget, path: &Path, t: &Transform) -> Checked {
    for p in dt.get_data_mut() {
        *p = 0;
    }
    dt.set_transform(t);
    dt.fill(path, &Source::Solid(WHITE), &opts(BlendMode::SrcOver, 1., case.aa));
    dt.set_transform(&Transform::identity());
    let es = edges(&case.ops);
    let mut res = Checked { asserted: 0, ambiguous: 0, partial: 0, full: 0, empty: 0, violation: None };
    let mut crossings = Vec::new();
    let w = case.w;
    let data = dt.get_data();
    for py in 0..case.h {
        if case.aa {
            let rows: Vec<RowModel> = (0..4).map(|j| model_row(&es, (4 * py + j) as i64, w, case.evenodd, &mut crossings)).collect();
            for px in 0..w {
                let mut kmin = 0;
                let mut amb = 0;
                for r in &rows {
                    for c in 0..4 {
                        match r.cells[(4 * px + c) as usize] {
                            1 => kmin += 1,
                            2 => amb += 1,
                            _ => {}
                        }
                    }
                }
                let pix = data[(py * w + px) as usize];
                let a = pix >> 24;
                let uniform = pix == a * 0x01010101;
                if amb > 0 {
                    res.ambiguous += 1;
                } else {
                    res.asserted += 1;
                    if kmin == 0 {
                        res.empty += 1
                    } else if kmin == 16 {
                        res.full += 1
                    } else {
                        res.partial += 1
                    }
                }
                if (!allowed_aa(kmin, kmin + amb, a) || !uniform) && res.violation.is_none() {
                    res.violation = Some(format!(
                        "pixel ({},{}) = {}: model says {}..{} of 16 cells covered, which allows alpha {}",
                        px,
                        py,
                        hex(pix),
                        kmin,
                        kmin + amb,
                        (kmin..=kmin + amb).map(|k| if k == 0 { "0".to_string() } else if k == 16 { "255".to_string() } else { format!("{}|{}", 16 * k - 1, 16 * k) }).collect::<Vec<_>>().join(",")
                    ));
                }
            }
        } else {
            let r = model_row(&es, (4 * py) as i64, w, case.evenodd, &mut crossings);
            for px in 0..w {
                let cell = r.cells[(4 * px + 3) as usize];
                let pix = data[(py * w + px) as usize];
                match cell {
                    2 => res.ambiguous += 1,
                    c => {
                        res.asserted += 1;
                        if c == 1 {
                            res.full += 1
                        } else {
                            res.empty += 1
                        }
                    }
                }
                let ok = match cell {
                    0 => pix == 0,
                    1 => pix == 0xffffffff,
                    _ => pix == 0 || pix == 0xffffffff,
                };
                if !ok && res.violation.is_none() {
                    res.violation = Some(format!("aliased pixel ({},{}) = {}: model says cell {} of sample row {} is {}", px, py, hex(pix), 4 * px + 3, 4 * py, if cell == 1 { "covered (expected 0xffffffff)" } else if cell == 0 { "not covered (expected 0)" } else { "ambiguous (expected 0 or 0xffffffff)" }));
                }
            }
        }
    }
    res
}

fn gen_coord(rng: &mut Rng, size_q: i64, far: bool) -> i64 {
    if far {
        match rng.below(4) {
            0 => rng.int(-16000, 16000),
            1 => rng.int(-16000, -1),
            2 => rng.int(size_q, 16000),
            _ => rng.int(-8, size_q + 8),
        }
    } else {
        match rng.below(10) {
            0 => *rng.pick(&[0, size_q, -1, size_q + 1, 4, size_q - 4]),
            1 => rng.int(-40, size_q + 40),
            _ => rng.int(-6, size_q + 6),
        }
    }
}

pub fn gen_case(rng: &mut Rng) -> Case {
    let w = match rng.below(12) {
        0 => 0,
        1 => 1,
        _ => rng.int(1, 24) as i32,
    };
    let h = match rng.below(12) {
        0 => 0,
        1 => 1,
        _ => rng.int(1, 24) as i32,
    };
    let far = rng.chance(0.1);
    // where the polygon lies relative to the surface
    let (offx, offy) = match rng.below(10) {
        0 => (0, -(4 * h as i64 + rng.int(4, 60))),  // wholly above
        1 => (0, 4 * h as i64 + rng.int(0, 60)),     // wholly below
        2 => (-(4 * w as i64 + rng.int(4, 60)), 0),  // wholly left
        3 => (4 * w as i64 + rng.int(0, 60), 0),     // wholly right
        4 => (rng.int(-2 * w as i64 - 4, 2 * w as i64 + 4), rng.int(-2 * h as i64 - 4, 2 * h as i64 + 4)), // straddling
        _ => (0, 0),
    };
    let many = rng.chance(0.2);
    let nsub = 1 + rng.below(if many { 4 } else { 2 });
    let mut ops = Vec::new();
    for si in 0..nsub {
        let big = rng.chance(0.15);
        let nv = 3 + rng.below(if big { 7 } else { 4 });
        let mut pts: Vec<(i64, i64)> = Vec::new();
        for _ in 0..nv {
            let mut x = gen_coord(rng, 4 * w as i64, far) + offx;
            let mut y = gen_coord(rng, 4 * h as i64, far) + offy;
            if !pts.is_empty() {
                let last = pts[pts.len() - 1];
                match rng.below(12) {
                    0 => y = last.1,            // horizontal edge
                    1 => x = last.0,            // vertical edge
                    2 => {
                        x = last.0;
                        y = last.1
                    } // repeated vertex
                    3 => {
                        // sliver thinner than a cell
                        x = last.0 + rng.int(-1, 1);
                    }
                    _ => {}
                }
            }
            x = x.clamp(-16000, 16000);
            y = y.clamp(-16000, 16000);
            pts.push((x, y));
        }
        // a missing MoveTo for the first subpath exercises "LineTo starts the subpath"
        if si == 0 && rng.chance(0.1) {
            ops.push(QOp::Line(pts[0].0, pts[0].1));
        } else {
            ops.push(QOp::Move(pts[0].0, pts[0].1));
        }
        for p in &pts[1..] {
            ops.push(QOp::Line(p.0, p.1));
        }
        match rng.below(4) {
            0 => {} // implicit close
            1 => {
                ops.push(QOp::Close);
                // line after close continues from the subpath start
                let x = (gen_coord(rng, 4 * w as i64, far) + offx).clamp(-16000, 16000);
                let y = (gen_coord(rng, 4 * h as i64, far) + offy).clamp(-16000, 16000);
                ops.push(QOp::Line(x, y));
                if rng.chance(0.5) {
                    let x = (gen_coord(rng, 4 * w as i64, far) + offx).clamp(-16000, 16000);
                    let y = (gen_coord(rng, 4 * h as i64, far) + offy).clamp(-16000, 16000);
                    ops.push(QOp::Line(x, y));
                }
            }
            _ => ops.push(QOp::Close),
        }
    }
    // a side split by a vertex that lies exactly on it now and then (its two halves are one line to any code
    // that merges continuing edges)
    if rng.chance(0.12) {
        let mut split: Vec<QOp> = Vec::new();
        let mut cur: Option<(i64, i64)> = None;
        for op in &ops {
            if let (QOp::Line(x, y), Some((cx, cy))) = (op, cur) {
                if (cx + x) % 2 == 0 && (cy + y) % 2 == 0 && (cx, cy) != (*x, *y) && rng.chance(0.6) {
                    split.push(QOp::Line((cx + x) / 2, (cy + y) / 2));
                }
            }
            match op {
                QOp::Move(x, y) | QOp::Line(x, y) => cur = Some((*x, *y)),
                QOp::Close => cur = None,
            }
            split.push(op.clone());
        }
        ops = split;
    }
    // an outline of whole-pixel horizontal and vertical sides that goes on after its Close with sloped lines now
    // and then (the part after Close continues from the subpath's start and is part of the shape)
    if rng.chance(0.04) && w >= 6 && h >= 6 {
        ops.clear();
        let (x0, y0) = (4 * rng.int(0, 2), 4 * rng.int(0, 2));
        let (x1, y1) = (x0 + 4 * rng.int(2, w as i64 - 3), y0 + 4 * rng.int(2, h as i64 - 3));
        ops.push(QOp::Move(x0, y0));
        ops.push(QOp::Line(x1, y0));
        ops.push(QOp::Line(x1, y1));
        ops.push(QOp::Line(x0, y1));
        ops.push(QOp::Close);
        if rng.chance(0.8) {
            ops.push(QOp::Line(x0 + 4 * rng.int(1, 3), y1));
            ops.push(QOp::Line(x0 + 4 * rng.int(1, 3), y0));
        }
    }
    // the whole outline a second (and third) time now and then: identical edges meet in the edge lists, every
    // winding number doubles
    if rng.chance(0.1) {
        let once = ops.clone();
        for _ in 0..rng.int(1, 2) {
            ops.extend(once.iter().cloned());
        }
    }
    // a steep fan crossed by one shallow edge now and then: that edge overtakes several neighbours in the
    // active list within a single sample row
    if rng.chance(0.05) && w >= 8 {
        let x0 = rng.int(0, 8);
        for k in 0..rng.int(2, 6) {
            let x = x0 + 4 * k + rng.int(0, 2);
            ops.push(QOp::Move(x, -4));
            ops.push(QOp::Line(x + rng.int(1, 3), -4));
            ops.push(QOp::Line(x + rng.int(1, 3) + rng.int(-2, 2), 4 * h as i64 + 4));
            ops.push(QOp::Line(x + rng.int(-2, 2), 4 * h as i64 + 4));
            ops.push(QOp::Close);
        }
        let y = rng.int(0, 4 * h as i64);
        ops.push(QOp::Move(-8, y));
        ops.push(QOp::Line(4 * w as i64 + 8, y + rng.int(1, 6)));
        ops.push(QOp::Line(4 * w as i64 + 8, y + rng.int(8, 30)));
        ops.push(QOp::Line(-8, y + rng.int(8, 30)));
        ops.push(QOp::Close);
    }
    Case { w, h, ops, evenodd: rng.chance(0.5), aa: rng.chance(0.6) }
}

/// hand-written cases aimed at the rasteriser's special paths
fn directed_cases() -> Vec<Case> {
    let mut v = Vec::new();
    let rect = |x0: i64, y0: i64, x1: i64, y1: i64| vec![QOp::Move(x0, y0), QOp::Line(x1, y0), QOp::Line(x1, y1), QOp::Line(x0, y1), QOp::Close];
    for &aa in &[true, false] {
        for &eo in &[false, true] {
            // surface-covering and larger rectangles, edges far outside on every side
            v.push(Case { w: 4, h: 4, ops: rect(-16000, -16000, 16000, 16000), evenodd: eo, aa });
            v.push(Case { w: 5, h: 3, ops: rect(0, 0, 20, 12), evenodd: eo, aa });
            v.push(Case { w: 5, h: 3, ops: rect(1, 1, 19, 11), evenodd: eo, aa });
            v.push(Case { w: 5, h: 3, ops: rect(2, 3, 17, 9), evenodd: eo, aa });
            // tall triangle that starts far above the surface and is stepped into view
            v.push(Case { w: 8, h: 8, ops: vec![QOp::Move(16, -15000), QOp::Line(40, 40), QOp::Line(-8, 40)], evenodd: eo, aa });
            // edges wholly left (winding must be carried in) and wholly right
            v.push(Case { w: 6, h: 6, ops: vec![QOp::Move(-400, 2), QOp::Line(10, 2), QOp::Line(10, 20), QOp::Line(-400, 22)], evenodd: eo, aa });
            v.push(Case { w: 6, h: 6, ops: vec![QOp::Move(6, 2), QOp::Line(4000, 3), QOp::Line(4000, 20), QOp::Line(7, 22)], evenodd: eo, aa });
            // two overlapping rects with the same and with opposite orientation
            let mut o = rect(2, 2, 14, 14);
            o.extend(rect(6, 6, 20, 20));
            v.push(Case { w: 6, h: 6, ops: o, evenodd: eo, aa });
            let mut o = rect(2, 2, 14, 14);
            o.extend(vec![QOp::Move(6, 6), QOp::Line(6, 20), QOp::Line(20, 20), QOp::Line(20, 6), QOp::Close]);
            v.push(Case { w: 6, h: 6, ops: o, evenodd: eo, aa });
            // bow tie
            v.push(Case { w: 6, h: 6, ops: vec![QOp::Move(1, 1), QOp::Line(22, 21), QOp::Line(22, 2), QOp::Line(2, 22)], evenodd: eo, aa });
            // zero-sized surfaces and degenerate paths
            v.push(Case { w: 0, h: 5, ops: rect(0, 0, 20, 20), evenodd: eo, aa });
            v.push(Case { w: 5, h: 0, ops: rect(0, 0, 20, 20), evenodd: eo, aa });
            v.push(Case { w: 3, h: 3, ops: vec![], evenodd: eo, aa });
            v.push(Case { w: 3, h: 3, ops: vec![QOp::Close], evenodd: eo, aa });
            v.push(Case { w: 3, h: 3, ops: vec![QOp::Move(1, 1), QOp::Line(9, 1)], evenodd: eo, aa });
            // the sub-pixel sliver and single cells
            v.push(Case { w: 3, h: 3, ops: rect(5, 5, 6, 6), evenodd: eo, aa });
            v.push(Case { w: 3, h: 3, ops: rect(4, 4, 8, 8), evenodd: eo, aa });
            v.push(Case { w: 3, h: 3, ops: rect(3, 3, 9, 9), evenodd: eo, aa });
        }
    }
    v
}

fn run_one(case: &Case, want_desc: bool, st: &mut Stats, dt: &mut DrawTarget) -> CaseOut {
    let r = check_case(case, dt);
    st.add("pixels_asserted", r.asserted);
    st.add("pixels_ambiguous_not_asserted", r.ambiguous);
    st.add("pixels_partial_coverage", r.partial);
    st.add("pixels_full", r.full);
    st.add("pixels_empty", r.empty);
    let mut out = CaseOut::default();
    out.hash = case.hash();
    out.nontrivial = (r.full + r.partial) > 0 && r.empty > 0;
    if let Some(v) = r.violation {
        out.viol("C01", v);
    }
    if want_desc || !out.violations.is_empty() {
        out.desc = Some(case.desc());
    }
    out
}

fn with_target<R>(w: i32, h: i32, f: impl FnOnce(&mut DrawTarget) -> R) -> R {
    // a fresh target per case keeps every case replayable on its own (reuse is C10's subject);
    // every constructor must give the same rasteriser
    let mut dt = match (w * 31 + h * 17) % 3 {
        0 => DrawTarget::new(w, h),
        1 => DrawTarget::from_vec(w, h, Vec::new()),
        _ => DrawTarget::from_backing(w, h, vec![0u32; (w * h) as usize]),
    };
    f(&mut dt)
}

pub fn run(ctx: &Ctx) -> Outcome {
    let mut out = Outcome::new(
        "random and directed polygons with quarter-grid vertices (1..4 subpaths, 3..9 vertices, self-intersecting, both orientations, implicit/explicit close, \
         line after close, horizontal/vertical/repeated/sliver edges, positions inside/straddling/wholly outside on each side, vertices out to +-4000 px, surfaces 0..24, \
         both rules, both AA modes) filled white on transparent; every pixel compared with the exact i128 scanline model. A case is non-trivial when the model \
         asserted at least one painted and at least one untouched pixel; distinct = distinct hash of (surface, ops, rule, AA).",
    );
    out.assume("observation identity I1: white SrcOver on transparent through coverage m stores alpha m (checked: all four channels must equal alpha)");
    out.assume("ambiguity band e = (rows stepped + 1) * 2^-14 quarter pixels per crossing for the truncated 16.16 slope; pixels with a crossing inside the band are not asserted");

    let dirs = directed_cases();
    run_cases(ctx, &mut out, SubSpec { name: "directed", cases: dirs.len() as u64, exhaustive: false, max_secs: 60. }, |i, want, st| {
        let c = &dirs[i as usize];
        with_target(c.w, c.h, |dt| run_one(c, want, st, dt))
    });

    let n = ctx.n(400_000, 6_000_000);
    run_cases(ctx, &mut out, SubSpec { name: "random", cases: n, exhaustive: false, max_secs: if ctx.quick() { 40. } else { 600. } }, |i, want, st| {
        let mut rng = ctx.rng("random", i);
        let c = gen_case(&mut rng);
        with_target(c.w, c.h, |dt| run_one(&c, want, st, dt))
    });

    if ctx.quick() && ctx.scale_div == 1 {
        // a slice of the triangle space that the thorough tier enumerates completely (every 97th case)
        let g: u64 = 17;
        let pts = g * g;
        let total = pts * pts * pts * 2;
        run_cases(ctx, &mut out, SubSpec { name: "triangles_2x2_every_97th", cases: total / 97, exhaustive: false, max_secs: 60. }, |j, want, st| {
            let i = j * 97 + (ctx.seed % 97);
            let aa = i % 2 == 0;
            let mut k = i / 2;
            let mut p = [(0i64, 0i64); 3];
            for v in p.iter_mut() {
                let q = k % pts;
                k /= pts;
                *v = ((q % g) as i64 - 4, (q / g) as i64 - 4);
            }
            let c = Case { w: 2, h: 2, ops: vec![QOp::Move(p[0].0, p[0].1), QOp::Line(p[1].0, p[1].1), QOp::Line(p[2].0, p[2].1)], evenodd: (i / 2) % 3 == 0, aa };
            with_target(2, 2, |dt| run_one(&c, want, st, dt))
        });
    }
    if !ctx.quick() && ctx.scale_div == 1 {
        // every triangle with vertices on the quarter grid of [-1,3]^2 on a 2x2 surface, both AA modes
        let g: u64 = 17; // -4..=12 quarter units
        let pts = g * g;
        let total = pts * pts * pts * 2;
        run_cases(ctx, &mut out, SubSpec { name: "exhaustive_triangles_2x2", cases: total, exhaustive: true, max_secs: 1500. }, |i, want, st| {
            let aa = i % 2 == 0;
            let mut k = i / 2;
            let mut p = [(0i64, 0i64); 3];
            for v in p.iter_mut() {
                let q = k % pts;
                k /= pts;
                *v = ((q % g) as i64 - 4, (q / g) as i64 - 4);
            }
            let c = Case { w: 2, h: 2, ops: vec![QOp::Move(p[0].0, p[0].1), QOp::Line(p[1].0, p[1].1), QOp::Line(p[2].0, p[2].1)], evenodd: (i / 2) % 3 == 0, aa };
            with_target(2, 2, |dt| run_one(&c, want, st, dt))
        });
    }
    // very many subpaths on top of each other: winding numbers in the hundreds
    run_cases(ctx, &mut out, SubSpec { name: "many_overlapping_subpaths", cases: ctx.n(40, 2_000), exhaustive: false, max_secs: 120. }, |i, want, st| {
        let mut rng = ctx.rng("many_overlapping_subpaths", i);
        let w = rng.int(4, 16) as i32;
        let h = rng.int(4, 16) as i32;
        // every count comes round within nine cases, in one direction in two of three rounds
        let counts = [100usize, 127, 128, 129, 200, 255, 256, 257, 300, 511, 512, 513, 768];
        let n = counts[(i as usize) % if ctx.quick() { 9 } else { counts.len() }];
        let same_dir = (i / 9) % 3 != 2;
        let mut ops = Vec::new();
        for k in 0..n {
            let inset = if rng.chance(0.5) { 0 } else { (k % 5) as i64 };
            let (x0, y0, x1, y1) = (2 + inset, 3 + inset, 4 * w as i64 - 3 - inset, 4 * h as i64 - 2 - inset);
            let fwd = same_dir || k % 2 == 0;
            ops.push(QOp::Move(x0, y0));
            if fwd {
                ops.push(QOp::Line(x1, y0));
                ops.push(QOp::Line(x1, y1));
                ops.push(QOp::Line(x0, y1));
            } else {
                ops.push(QOp::Line(x0, y1));
                ops.push(QOp::Line(x1, y1));
                ops.push(QOp::Line(x1, y0));
            }
            ops.push(QOp::Close);
        }
        let c = Case { w, h, ops, evenodd: (i / 27) % 3 == 2, aa: rng.chance(0.7) };
        let mut co = with_target(w, h, |dt| run_one(&c, false, st, dt));
        if want || !co.violations.is_empty() {
            co.desc = Some(J::s(&format!("{} rectangles ({}) on {}x{}, {}", n, if same_dir { "same direction" } else { "alternating directions" }, w, h, if c.evenodd { "EvenOdd" } else { "NonZero" })));
        }
        co
    });
    // a comb of many thin bars crossed by a shallow sliver: within a single sample row the sliver's edges overtake
    // dozens of neighbours in the active edge list, in either direction
    run_cases(ctx, &mut out, SubSpec { name: "shallow_slivers_over_combs", cases: ctx.n(600, 40_000), exhaustive: false, max_secs: 120. }, |i, want, st| {
        let mut rng = ctx.rng("shallow_slivers_over_combs", i);
        let nbars = rng.int(4, 70);
        let pitch = rng.int(2, 6);
        let barw = rng.int(1, pitch - 1);
        let x0 = rng.int(-6, 6);
        let span = nbars * pitch;
        let w = ((x0 + span) / 4 + rng.int(-2, 3)).clamp(2, 120) as i32;
        let h = rng.int(2, 10) as i32;
        let mut ops = Vec::new();
        let (top, bot) = (rng.int(-6, 2), 4 * h as i64 + rng.int(-2, 6));
        for k in 0..nbars {
            let x = x0 + k * pitch;
            let lean = rng.int(-1, 1);
            ops.push(QOp::Move(x, top));
            ops.push(QOp::Line(x + barw, top));
            ops.push(QOp::Line(x + barw + lean, bot));
            ops.push(QOp::Line(x + lean, bot));
            ops.push(QOp::Close);
        }
        for _ in 0..rng.int(1, 2) {
            let y = rng.int(0, 4 * h as i64 - 1);
            let (l, r) = (x0 - rng.int(2, 10), x0 + span + rng.int(2, 10));
            let (ya, yb) = (y, y + rng.int(1, 5));
            let thick = rng.int(1, 12);
            // rising to the right or to the left
            let (a, b) = if rng.chance(0.5) { (l, r) } else { (r, l) };
            ops.push(QOp::Move(a, ya));
            ops.push(QOp::Line(b, yb));
            ops.push(QOp::Line(b, yb + thick));
            ops.push(QOp::Line(a, ya + thick));
            ops.push(QOp::Close);
        }
        let c = Case { w, h, ops, evenodd: rng.chance(0.5), aa: rng.chance(0.75) };
        st.add("combs_of_more_than_25_edges", (2 * nbars > 25) as u64);
        with_target(w, h, |dt| run_one(&c, want, st, dt))
    });
    // surfaces at and beyond the sizes where 16.16 and 16-bit quantities wrap: a small polygon anywhere on them
    run_cases(ctx, &mut out, SubSpec { name: "very_wide_and_very_tall_surfaces", cases: ctx.n(24, 400), exhaustive: false, max_secs: 120. }, |i, want, st| {
        let mut rng = ctx.rng("very_wide_and_very_tall_surfaces", i);
        let long = *rng.pick(&[8191i32, 8192, 8193, 16384, 32767, 32768, 32769, 40000, 65535, 65536, 70000]);
        let short = rng.int(1, 3) as i32;
        let wide = i % 2 == 0;
        let (w, h) = if wide { (long, short) } else { (short, long) };
        // a polygon of a few pixels near the start, the middle or the far end of the long side
        // (x stays inside the 16.16 working range of +-32767 px whatever the width of the surface)
        let reach = if wide { (long as i64).min(32700) } else { long as i64 };
        let at = match rng.below(4) {
            0 => 0,
            1 => reach / 2,
            2 => reach - 9,
            _ => rng.int(0, reach - 1),
        };
        let mut ops = Vec::new();
        let n = rng.int(3, 6);
        for k in 0..n {
            let (a, b) = (4 * at + rng.int(-8, 40), rng.int(-4, 4 * short as i64 + 4));
            let (x, y) = if wide { (a, b) } else { (b, a) };
            ops.push(if k == 0 { QOp::Move(x, y) } else { QOp::Line(x, y) });
        }
        ops.push(QOp::Close);
        let c = Case { w, h, ops, evenodd: rng.chance(0.5), aa: rng.chance(0.7) };
        st.add(if wide { "very_wide_surfaces" } else { "very_tall_surfaces" }, 1);
        with_target(w, h, |dt| run_one(&c, want, st, dt))
    });

    // transforms that keep whole-pixel vertices on the quarter grid exactly (unit or doubled diagonal, dyadic
    // shear on one side or both, quarter translations, quarter turns, mirrors): the model is evaluated on the
    // exactly transformed polygon, the library fills the original one under the transform
    run_cases(ctx, &mut out, SubSpec { name: "grid_preserving_transforms", cases: ctx.n(60_000, 1_000_000), exhaustive: false, max_secs: if ctx.quick() { 20. } else { 300. } }, |i, want, st| {
        let mut rng = ctx.rng("grid_preserving_transforms", i);
        let base = gen_case(&mut rng);
        // whole-pixel vertices
        let snap = |v: i64| (v.div_euclid(4)) * 4;
        let ops: Vec<QOp> = base.ops.iter().map(|o| match *o { QOp::Move(x, y) => QOp::Move(snap(x), snap(y)), QOp::Line(x, y) => QOp::Line(snap(x), snap(y)), QOp::Close => QOp::Close }).collect();
        // matrix entries in quarters
        let one = |rng: &mut Rng| *rng.pick(&[4i64, 4, 4, -4, 8]);
        let sh = |rng: &mut Rng| *rng.pick(&[0i64, 0, 2, -2, 4, -4, 1, -1, 3]);
        let (a, b, c, d) = match rng.below(6) {
            0 => (4, 0, sh(&mut rng), 4),
            1 => (4, sh(&mut rng), 0, 4),
            2 => (0, 4, -4, 0),
            3 => (0, -4, 4, 0),
            _ => (one(&mut rng), sh(&mut rng), sh(&mut rng), one(&mut rng)),
        };
        if a * d - b * c == 0 {
            return CaseOut::default();
        }
        let (tx, ty) = (rng.int(-12, 4 * base.w as i64 + 12), rng.int(-12, 4 * base.h as i64 + 12));
        // device = user * M + t, in quarter units (user coordinates are multiples of 4, so the division is exact)
        let map = |x: i64, y: i64| ((a * x + c * y) / 4 + tx, (b * x + d * y) / 4 + ty);
        // A coincidence between the two spaces now and then: the first subpath (left open) ends at the user-space
        // point whose coordinates are those of its own start in device space, and the next subpath starts right there.
        let mut ops = ops;
        if rng.chance(0.15) {
            if let Some(QOp::Move(fx, fy)) = ops.first().cloned() {
                let e = map(fx, fy);
                if e.0 % 4 == 0 && e.1 % 4 == 0 && e.0.abs() < 16000 && e.1.abs() < 16000 {
                    // end of the first run of lines
                    let mut k = 1;
                    while k < ops.len() && matches!(ops[k], QOp::Line(..)) {
                        k += 1;
                    }
                    if k >= 3 {
                        ops[k - 1] = QOp::Line(e.0, e.1);
                        let tail: Vec<QOp> = ops[k..].iter().filter(|o| !matches!(o, QOp::Close)).cloned().collect();
                        ops.truncate(k);
                        ops.push(QOp::Move(e.0, e.1));
                        ops.push(QOp::Line(e.0 + 4 * rng.int(2, 8), e.1 + 4 * rng.int(-6, 6)));
                        ops.push(QOp::Line(e.0 + 4 * rng.int(-6, 6), e.1 + 4 * rng.int(2, 8)));
                        ops.extend(tail);
                        st.add("cases_with_a_subpath_starting_where_the_last_ended_at_its_device_space_start", 1);
                    }
                }
            }
        }
        let dev_ops: Vec<QOp> = ops.iter().map(|o| match *o { QOp::Move(x, y) => { let p = map(x, y); QOp::Move(p.0, p.1) } QOp::Line(x, y) => { let p = map(x, y); QOp::Line(p.0, p.1) } QOp::Close => QOp::Close }).collect();
        let user = Case { w: base.w, h: base.h, ops, evenodd: base.evenodd, aa: base.aa };
        let dev = Case { w: base.w, h: base.h, ops: dev_ops, evenodd: base.evenodd, aa: base.aa };
        let t = Transform::new(a as f32 / 4., b as f32 / 4., c as f32 / 4., d as f32 / 4., tx as f32 / 4., ty as f32 / 4.);
        let r = with_target(base.w, base.h, |dt| check_case_drawn(&dev, dt, &user.path(), &t));
        st.add("pixels_asserted", r.asserted);
        st.add("pixels_partial_coverage", r.partial);
        st.add("cases_under_a_grid_preserving_transform", 1);
        let mut co = CaseOut::default();
        co.hash = hash_u64s(&[dev.hash(), a as u64, b as u64, c as u64, d as u64]);
        co.nontrivial = (r.full + r.partial) > 0 && r.empty > 0;
        if let Some(v) = r.violation {
            co.viol("C01", format!("under the transform {}: {}", transform_str(&t), v));
        }
        if want || !co.violations.is_empty() {
            let mut dsc = dev.desc();
            dsc.set("drawn_path", J::s(&path_str(&user.path())));
            dsc.set("transform", J::s(&transform_str(&t)));
            co.desc = Some(dsc);
        }
        co
    });

    if out.stats.get("pixels_partial_coverage") == 0 && ctx.replay.is_none() {
        out.inconclusive("no partially covered pixel was asserted".to_string());
    }
    out
}
