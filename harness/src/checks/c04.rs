//! C04 - strokes cover exactly the offset region implied by width, joins and caps.
//!
//! Oracle: the region of the statement built independently in f64 as a union of convex
//! primitives (rect per segment, join shape on the outer side of every vertex, cap shape at open
//! ends), mapped by the transform; a pixel whose square grown by the margin lies inside one
//! primitive must be 255, one that is clear of all primitives must be 0 (white on transparent).

use crate::geom::*;
use crate::json::J;
use crate::prng::Rng;
use crate::runner::*;
use crate::util::*;
use raqote::*;

pub fn cap_of(c: LineCap) -> Cap {
    match c {
        LineCap::Butt => Cap::Butt,
        LineCap::Round => Cap::Round,
        LineCap::Square => Cap::Square,
    }
}

pub fn join_of(j: LineJoin) -> Join {
    match j {
        LineJoin::Miter => Join::Miter,
        LineJoin::Round => Join::Round,
        LineJoin::Bevel => Join::Bevel,
    }
}

pub struct StrokeCase {
    pub w: i32,
    pub h: i32,
    pub path: Path,
    pub style: StrokeStyle,
    pub t: Transform,
    pub aa: bool,
}

pub struct RegionResult {
    pub inside: u64,
    pub outside: u64,
    pub skipped: u64,
    pub violation: Option<String>,
    /// every failing pixel matches the signature of the known thin-piece finding: an inside pixel that
    /// lost at most half of its 16 sample cells, next to a stroke piece thinner than half a pixel
    pub only_thin_piece_pinholes: bool,
}

fn thin_piece_pinhole(reg: &Region, c: P, px: u32) -> bool {
    // a thin piece crossing a pixel diagonally touches one cell on each of the four sample rows, a piece
    // up to half a pixel thick twice that: at most half of the 16 cells can be cancelled
    let a = px >> 24;
    if a < 127 || px != a * 0x01010101 {
        return false;
    }
    reg.inner.iter().any(|p| p.width() < 0.5 && p.signed_dist(c).abs() <= 1.5)
}

/// compares a white-on-transparent render with a region (already in device space)
pub fn check_against_region(data: &[u32], w: i32, h: i32, reg: &Region, margin: f64) -> RegionResult {
    let r = (0.5 + margin) * std::f64::consts::SQRT_2;
    let mut res = RegionResult { inside: 0, outside: 0, skipped: 0, violation: None, only_thin_piece_pinholes: true };
    for y in 0..h {
        for x in 0..w {
            let c = P::new(x as f64 + 0.5, y as f64 + 0.5);
            let px = data[(y * w + x) as usize];
            match classify(reg, c, r) {
                Some(true) => {
                    res.inside += 1;
                    if px != 0xffffffff && !thin_piece_pinhole(reg, c, px) {
                        res.only_thin_piece_pinholes = false;
                    }
                    if px != 0xffffffff && res.violation.is_none() {
                        res.violation = Some(format!("pixel ({},{}) lies inside the stroke region by more than the margin {} but is {} instead of fully painted", x, y, margin, hex(px)));
                    }
                }
                Some(false) => {
                    res.outside += 1;
                    if px != 0 {
                        res.only_thin_piece_pinholes = false;
                    }
                    if px != 0 && res.violation.is_none() {
                        res.violation = Some(format!("pixel ({},{}) lies outside the stroke region by more than the margin {} but is {} instead of untouched", x, y, margin, hex(px)));
                    }
                }
                None => res.skipped += 1,
            }
        }
    }
    res
}

/// the polyline that gets stroked: the path itself, or its flattening with the stroker's tolerance
/// (0.1 device pixels, scaled by the transform) when it has curves
pub fn stroke_polyline(path: &Path, t: &Transform) -> Vec<Sub> {
    let tol = 0.1 / t.determinant().abs().sqrt();
    let path = &straighten_axis_aligned_curves(path, tol);
    if has_curves(path) {
        subpaths(&path.flatten(tol), 1)
    } else {
        subpaths(path, 1)
    }
}

/// A curve whose points all share one x or one y is a walk along a straight line: from its start to its
/// turning points (where it runs beyond an end point and comes back) to its end. Known in closed form,
/// so such curves are judged without flatten().
/// (only where every turning point lies beyond the nearer end point by well over the flattening tolerance
/// `tol`: an overshoot within the tolerance is legitimately flattened away, which turns the end cap around)
fn straighten_axis_aligned_curves(path: &Path, tol: f32) -> Path {
    let mut ops = Vec::new();
    let mut cur: Option<Point> = None;
    let mut start: Option<Point> = None;
    // positions of the turning points of the 1-D Bezier with the given coordinates, in order of t
    let turning = |c: &[f64]| -> Vec<f64> {
        let mut ts: Vec<f64> = Vec::new();
        if c.len() == 3 {
            let den = c[0] - 2. * c[1] + c[2];
            if den != 0. {
                ts.push((c[0] - c[1]) / den);
            }
        } else {
            let (d0, d1, d2) = (c[1] - c[0], c[2] - c[1], c[3] - c[2]);
            let (qa, qb, qc) = (d0 - 2. * d1 + d2, 2. * (d1 - d0), d0);
            if qa.abs() < 1e-12 {
                if qb != 0. {
                    ts.push(-qc / qb);
                }
            } else {
                let disc = qb * qb - 4. * qa * qc;
                if disc > 0. {
                    let r = disc.sqrt();
                    ts.push((-qb - r) / (2. * qa));
                    ts.push((-qb + r) / (2. * qa));
                }
            }
        }
        ts.retain(|t| *t > 0. && *t < 1.);
        ts.sort_by(|a, b| a.partial_cmp(b).unwrap());
        ts.iter()
            .map(|t| {
                let u = 1. - t;
                if c.len() == 3 {
                    u * u * c[0] + 2. * u * t * c[1] + t * t * c[2]
                } else {
                    u * u * u * c[0] + 3. * u * u * t * c[1] + 3. * u * t * t * c[2] + t * t * t * c[3]
                }
            })
            .collect()
    };
    for op in &path.ops {
        match *op {
            PathOp::MoveTo(p) => {
                cur = Some(p);
                start = Some(p);
                ops.push(*op);
            }
            PathOp::LineTo(p) => {
                if cur.is_none() {
                    start = Some(p);
                }
                cur = Some(p);
                ops.push(*op);
            }
            PathOp::Close => {
                cur = start;
                ops.push(*op);
            }
            PathOp::QuadTo(..) | PathOp::CubicTo(..) => {
                let (ctrl, end): (Vec<Point>, Point) = match *op {
                    PathOp::QuadTo(c, p) => (vec![c], p),
                    PathOp::CubicTo(c1, c2, p) => (vec![c1, c2], p),
                    _ => unreachable!(),
                };
                let from = match cur {
                    Some(f) => f,
                    None => {
                        ops.push(*op);
                        cur = Some(end);
                        start = Some(ctrl[0]);
                        continue;
                    }
                };
                let mut all = vec![from];
                all.extend(ctrl.iter().cloned());
                all.push(end);
                let same_y = all.iter().all(|q| q.y == from.y);
                let same_x = all.iter().all(|q| q.x == from.x);
                let coords: Vec<f64> = all.iter().map(|q| if same_y { q.x as f64 } else { q.y as f64 }).collect();
                let (lo, hi) = (coords[0].min(coords[coords.len() - 1]), coords[0].max(coords[coords.len() - 1]));
                let clear = (same_y || same_x) && turning(&coords).iter().all(|v| (*v < lo - 6. * tol as f64) || (*v > hi + 6. * tol as f64));
                if clear {
                    for v in turning(&coords) {
                        ops.push(PathOp::LineTo(if same_y { Point::new(v as f32, from.y) } else { Point::new(from.x, v as f32) }));
                    }
                    ops.push(PathOp::LineTo(end));
                } else {
                    ops.push(*op);
                }
                cur = Some(end);
            }
        }
    }
    Path { ops, winding: path.winding }
}

fn has_curves(p: &Path) -> bool {
    p.ops.iter().any(|o| matches!(o, PathOp::QuadTo(..) | PathOp::CubicTo(..)))
}

/// One case in ten is drawn with user space magnified by a power of two and everything given in user space
/// (path, width, dashes) shrunk by the same factor - exact in f32, the same picture (C11 checks that it is bit
/// for bit) - while the region oracle keeps working with the case as written.
pub fn stroke_possibly_scaled(dt: &mut DrawTarget, path: &Path, style: &StrokeStyle, t: &Transform, aa: bool, st: &mut Stats) {
    let hsh = crate::prng::hash_str(&format!("{:?}{:?}{:?}", path, style, t));
    let op = crate::ops::Op::Stroke(path.clone(), crate::gen::SrcSpec::Solid(0xffffffff), style.clone(), opts(BlendMode::SrcOver, 1., aa));
    // (dash entries near the top of the f32 range cannot be scaled up)
    let scalable = style.dash_array.iter().all(|d| d.abs() < 1e30) && style.dash_offset.abs() < 1e30;
    if hsh % 10 == 0 && scalable {
        let e = [-14i32, -13, -12, -11, -10, -9, 9, 10, 11, 12][(hsh / 10 % 10) as usize];
        let k = (2.0f32).powi(e);
        dt.set_transform(&Transform::scale(k, k).then(t));
        crate::ops::scaled_twin(&op, k).expect("strokes have twins").apply(dt);
        st.add("strokes_drawn_under_a_power_of_two_user_scale", 1);
    } else if hsh % 10 == 1 && !has_curves(path) && style.dash_array.is_empty() {
        // straight, undashed strokes also far out in the f32 exponent range (user units of 2^-60 px or 2^60 px):
        // segment lengths and widths whose squares leave the f32 range while every quantity the stroker needs
        // stays well inside it. Not further: the determinant of the transform has to stay a normal f32 number
        // (a transform whose determinant underflows to zero counts as singular and draws nothing).
        let e = [-60i32, -58, -56, -48, -40, 40, 48, 56, 58, 60][(hsh / 10 % 10) as usize];
        let k = (2.0f32).powi(e);
        dt.set_transform(&Transform::scale(k, k).then(t));
        crate::ops::scaled_twin(&op, k).expect("strokes have twins").apply(dt);
        st.add("strokes_drawn_under_an_extreme_power_of_two_user_scale", 1);
    } else {
        dt.set_transform(t);
        op.apply(dt);
    }
}

/// a stroke whose path lies outside the surface and whose width is stretched most in a direction that is not the
/// image of an axis (see the workload of the same name)
pub fn gen_reaching_in_case(rng: &mut Rng) -> Option<StrokeCase> {
        let w = rng.int(16, 40) as i32;
        let h = rng.int(16, 40) as i32;
        let ang = rng.range(0., 6.28) as f32;
        let t = match rng.below(3) {
            0 => Transform::rotation(euclid::Angle::radians(ang)).then_scale(*rng.pick(&[4.0f32, 3., 6.]), 1.),
            1 => Transform::rotation(euclid::Angle::radians(ang)).then_scale(1., *rng.pick(&[4.0f32, 3., 0.25])),
            _ => Transform::new(1., rng.range(-3., 3.) as f32, rng.range(-3., 3.) as f32, 1., 0., 0.),
        };
        let inv = match t.inverse() {
            Some(i) => i,
            None => return None,
        };
        // a line (or an angle) just outside one side of the surface, given in device space
        let d = rng.range(2., 40.) as f32;
        let side = rng.below(4);
        let dev: Vec<(f32, f32)> = match side {
            0 => vec![(-d, -5.), (-d - rng.range(0., 6.) as f32, h as f32 / 2.), (-d, h as f32 + 5.)],
            1 => vec![(w as f32 + d, -5.), (w as f32 + d, h as f32 + 5.)],
            2 => vec![(-5., -d), (w as f32 / 2., -d - rng.range(0., 6.) as f32), (w as f32 + 5., -d)],
            _ => vec![(-5., h as f32 + d), (w as f32 + 5., h as f32 + d)],
        };
        let mut pb = PathBuilder::new();
        for (k, p) in dev.iter().enumerate() {
            let u = inv.transform_point(Point::new(p.0, p.1));
            if k == 0 { pb.move_to(u.x, u.y) } else { pb.line_to(u.x, u.y) }
        }
        let style = StrokeStyle { width: rng.range(4., 24.) as f32, cap: *rng.pick(&[LineCap::Butt, LineCap::Round]), join: *rng.pick(&[LineJoin::Round, LineJoin::Bevel]), miter_limit: 2., dash_array: vec![], dash_offset: 0. };
        Some(StrokeCase { w, h, path: pb.finish(), style, t, aa: rng.chance(0.8) })
}

pub fn run_stroke_case(c: &StrokeCase, st: &mut Stats) -> (RegionResult, bool) {
    let mut dt = DrawTarget::new(c.w, c.h);
    stroke_possibly_scaled(&mut dt, &c.path, &c.style, &c.t, c.aa, st);
    // the statement is about the polyline: for curved paths that is the flattened path (C16 owns
    // the fidelity of flatten()); with bevel and miter joins the region depends on where its vertices are
    let subs = stroke_polyline(&c.path, &c.t);
    let t64 = T64::from(&c.t);
    let reg = stroke_region(&subs, c.style.width as f64, cap_of(c.style.cap), join_of(c.style.join), c.style.miter_limit as f64, &t64);
    let straight = !has_curves(&c.path) && c.style.join != LineJoin::Round && c.style.cap != LineCap::Round;
    // aliased rendering samples only one row per pixel: keep the curved-path margin
    let margin = if straight && c.aa { 0.5 } else { 1.0 };
    if reg.ill {
        st.add("cases_skipped_ill_conditioned", 1);
        return (RegionResult { inside: 0, outside: 0, skipped: (c.w * c.h) as u64, violation: None, only_thin_piece_pinholes: true }, true);
    }
    let res = check_against_region(dt.get_data(), c.w, c.h, &reg, margin);
    st.add("px_inside_asserted", res.inside);
    st.add("px_outside_asserted", res.outside);
    st.add("px_near_boundary_not_asserted", res.skipped);
    (res, false)
}

fn gen_polyline_path(rng: &mut Rng, w: i32, h: i32, curves: bool, min_seg: f64) -> Path {
    let (wf, hf) = (w as f64, h as f64);
    let mut ops = Vec::new();
    let multi = rng.chance(0.3);
    let nsub = 1 + rng.below(if multi { 3 } else { 1 });
    // where the previous subpath stopped (as stored): the next one may start exactly there - two open
    // subpaths that touch end to start have their own caps, not a join
    let mut prev_end: Option<P> = None;
    for _ in 0..nsub {
        let n = rng.int(2, 5) as usize;
        let mut pts: Vec<P> = Vec::new();
        let mut guard = 0;
        while pts.len() < n && guard < 200 {
            guard += 1;
            let p = match rng.below(6) {
                _ if pts.is_empty() && prev_end.is_some() && rng.chance(0.3) => prev_end.unwrap(),
                0 => P::new(rng.int(0, w as i64) as f64, rng.int(0, h as i64) as f64),
                _ => P::new(rng.range(-4., wf + 4.), rng.range(-4., hf + 4.)),
            };
            if let Some(l) = pts.last() {
                if l.dist(p) < min_seg {
                    continue;
                }
                // directed turning angles: straight on, right angle, exact reversal
                if pts.len() >= 2 && rng.chance(0.15) {
                    let a = pts[pts.len() - 2];
                    let d = l.sub(a);
                    let q = match rng.below(3) {
                        0 => l.add(d.mul(rng.range(0.5, 1.5))),          // 0 degrees
                        1 => l.add(d.perp().mul(rng.range(0.5, 1.5))),   // 90 degrees
                        _ => l.sub(d.mul(rng.range(0.3, 0.9))),          // 180 degrees exactly (same line)
                    };
                    if q.dist(*l) >= min_seg {
                        pts.push(q);
                        continue;
                    }
                }
            }
            pts.push(p);
        }
        if pts.len() < 2 {
            continue;
        }
        ops.push(PathOp::MoveTo(Point::new(pts[0].x as f32, pts[0].y as f32)));
        let mut prev = Point::new(pts[0].x as f32, pts[0].y as f32);
        for i in 1..pts.len() {
            let mut p = Point::new(pts[i].x as f32, pts[i].y as f32);
            // a repeated vertex (zero-length segment) changes nothing
            if rng.chance(0.05) {
                ops.push(PathOp::LineTo(prev));
            }
            if curves && rng.chance(0.1) && (p.x - prev.x).abs() > 1. && (p.y - prev.y).abs() > 1. {
                // control points exactly on the (horizontal or vertical) line through the end points, inside
                // or beyond them: the curve runs past an end point and comes back
                let horizontal = rng.chance(0.5);
                if horizontal { p.y = prev.y } else { p.x = prev.x }
                let ctrl = |rng: &mut Rng| -> Point {
                    let k = *rng.pick(&[-1.0f32, -0.5, 0.25, 0.5, 1.5, 2.0, 3.0]);
                    if horizontal { Point::new(prev.x + (p.x - prev.x) * k, prev.y) } else { Point::new(prev.x, prev.y + (p.y - prev.y) * k) }
                };
                if rng.chance(0.6) {
                    ops.push(PathOp::QuadTo(ctrl(rng), p));
                } else {
                    let (c1, c2) = (ctrl(rng), ctrl(rng));
                    ops.push(PathOp::CubicTo(c1, c2, p));
                }
            } else if curves && rng.chance(0.5) {
                let c = Point::new(rng.range(-2., wf + 2.) as f32, rng.range(-2., hf + 2.) as f32);
                if rng.chance(0.5) {
                    ops.push(PathOp::QuadTo(c, p));
                } else {
                    // (both control points in one place now and then: still a cubic, not the quadratic with that control point)
                    let c2 = if rng.chance(0.15) { c } else { Point::new(rng.range(-2., wf + 2.) as f32, rng.range(-2., hf + 2.) as f32) };
                    ops.push(PathOp::CubicTo(c, c2, p));
                }
            } else {
                ops.push(PathOp::LineTo(p));
            }
            prev = p;
        }
        prev_end = Some(P::new(prev.x as f64, prev.y as f64));
        if rng.chance(0.4) {
            // now and then the subpath returns to its start explicitly before closing
            if rng.chance(0.25) {
                ops.push(PathOp::LineTo(Point::new(pts[0].x as f32, pts[0].y as f32)));
            }
            ops.push(PathOp::Close);
        }
    }
    // the winding rule of a stroked path must not matter
    Path { ops, winding: if rng.chance(0.4) { Winding::EvenOdd } else { Winding::NonZero } }
}

/// curves whose flattening would make cusps or near-cusps are not assertable
pub fn well_conditioned(path: &Path, t: &Transform) -> bool {
    let subs = stroke_polyline(path, t);
    for s in &subs {
        let mut pts: Vec<P> = Vec::new();
        for p in &s.pts {
            if pts.last().map(|l| l.dist(*p) < 1e-9).unwrap_or(false) {
                continue;
            }
            pts.push(*p);
        }
        // a closed subpath may return to its start explicitly: that is one vertex, not two
        if s.closed && pts.len() >= 2 && pts[0].dist(pts[pts.len() - 1]) < 1e-9 {
            pts.pop();
        }
        let n = pts.len();
        if n < 2 {
            return false;
        }
        let m = if s.closed { n } else { n.saturating_sub(2) };
        for k in 0..m {
            let (a, b, c) = if s.closed { (pts[(k + n - 1) % n], pts[k], pts[(k + 1) % n]) } else { (pts[k], pts[k + 1], pts[k + 2]) };
            let d1 = b.sub(a);
            let d2 = c.sub(b);
            if d1.len() < 1e-9 || d2.len() < 1e-9 {
                return false;
            }
            let turn = d1.cross(d2).atan2(d1.dot(d2)).abs();
            // near (but not exactly) 180 degrees: the outer side flips with rounding
            if turn > 3.0 && d1.cross(d2) != 0. {
                return false;
            }
        }
    }
    true
}

pub fn gen_transform_for_stroke(rng: &mut Rng, w: i32, h: i32) -> Transform {
    let (cx, cy) = (w as f32 / 2., h as f32 / 2.);
    if rng.chance(0.08) {
        return special_transform(rng, w as f64, h as f64);
    }
    match rng.below(8) {
        0 | 1 | 2 => Transform::identity(),
        3 => Transform::translation(rng.range(-3., 3.) as f32, rng.range(-3., 3.) as f32),
        4 => Transform::translation(-cx, -cy).then_rotate(euclid::Angle::radians(rng.range(0., 6.28) as f32)).then_translate(euclid::vec2(cx, cy)),
        5 => Transform::translation(-cx, -cy).then_scale(rng.range(0.5, 2.5) as f32, rng.range(0.5, 2.5) as f32).then_translate(euclid::vec2(cx, cy)),
        6 => Transform::translation(-cx, -cy).then(&Transform::new(1., rng.range(-0.8, 0.8) as f32, rng.range(-0.8, 0.8) as f32, 1., 0., 0.)).then_translate(euclid::vec2(cx, cy)),
        _ => Transform::translation(-cx, -cy).then_scale(-1., rng.range(0.6, 1.6) as f32).then_rotate(euclid::Angle::radians(rng.range(0., 6.28) as f32)).then_translate(euclid::vec2(cx, cy)),
    }
}

pub fn case_desc(c: &StrokeCase) -> J {
    let mut d = J::obj();
    d.set("surface", J::s(&format!("{}x{}", c.w, c.h)));
    d.set("path", J::s(&path_str(&c.path)));
    d.set("style", J::s(&crate::gen::style_str(&c.style)));
    d.set("transform", J::s(&transform_str(&c.t)));
    d.set("antialias", J::Bool(c.aa));
    d
}

pub fn run(ctx: &Ctx) -> Outcome {
    let mut out = Outcome::new(
        "random polylines and curves (1..3 subpaths, 2..5 vertices, open/closed, directed turning angles 0/90/180 degrees, short segments), widths 0.3..40, three caps x three joins, miter limits on both sides of the vertices' switch-over, \
         transforms (identity, translation, rotation, anisotropic scale, shear, mirror), both AA modes, stroked white on transparent; every pixel is classified against the independently constructed region (rect per segment, outer-side join, caps; round parts as inscribed/circumscribed 96-gons): \
         deep inside (square grown by the margin inside one primitive) must be 0xffffffff, deep outside (clear of every primitive) must be 0; margin 0.5 px for straight paths with straight joins/caps, else 1 px. \
         Non-trivial: at least one inside and one outside pixel asserted; distinct = hash of the case. Cases with a miter join within 3% of its switch-over or a vertex that is almost (not exactly) a cusp are not asserted.",
    );
    let secs = if ctx.quick() { 40. } else { 900. };
    // directed: non-positive and NaN widths paint nothing
    run_cases(ctx, &mut out, SubSpec { name: "degenerate_widths_paint_nothing", cases: ctx.n(6_000, 100_000), exhaustive: false, max_secs: secs / 4. }, |i, want, st| {
        let mut rng = ctx.rng("degenerate_widths_paint_nothing", i);
        let w = rng.int(1, 20) as i32;
        let h = rng.int(1, 20) as i32;
        let curves = rng.chance(0.3);
        let path = gen_polyline_path(&mut rng, w, h, curves, 0.5);
        let mut style = crate::gen::random_style(&mut rng, 6.);
        style.width = *rng.pick(&[0.0f32, -0.0, -1.0, -1e-20, f32::NAN, -100., f32::NEG_INFINITY]);
        let t = gen_transform_for_stroke(&mut rng, w, h);
        let mut dt = DrawTarget::new(w, h);
        dt.set_transform(&t);
        dt.stroke(&path, &Source::Solid(WHITE), &style, &opts(BlendMode::SrcOver, 1., true));
        let mut co = CaseOut::default();
        co.hash = crate::prng::hash_str(&format!("{:?}{:?}{:?}", path, style, t));
        co.nontrivial = true;
        st.add("degenerate_width_strokes", 1);
        if let Some(k) = dt.get_data().iter().position(|p| *p != 0) {
            co.viol("C04", format!("a stroke of width {} painted pixel ({},{})", style.width, k as i32 % w, k as i32 / w));
        }
        if want || !co.violations.is_empty() {
            co.desc = Some(case_desc(&StrokeCase { w, h, path, style, t, aa: true }));
        }
        co
    });

    // the known thin-piece finding, reproduced on every run
    run_cases(ctx, &mut out, SubSpec { name: "directed", cases: 1, exhaustive: false, max_secs: 30. }, |_i, want, st| {
        let mut pb = PathBuilder::new();
        pb.move_to(10.016865, 12.364886);
        pb.line_to(10.006929, 12.560599);
        pb.line_to(13.331169, 14.183349);
        pb.line_to(16.240944, 6.865765);
        let c = StrokeCase {
            w: 16,
            h: 13,
            path: pb.finish(),
            style: StrokeStyle { width: 10.521669, cap: LineCap::Butt, join: LineJoin::Miter, miter_limit: 2.0, dash_array: vec![], dash_offset: 0. },
            t: Transform::new(1.0, -0.46260524, -0.16476995, 1.0, 1.0710049, 3.700842),
            aa: true,
        };
        let mut co = CaseOut::default();
        co.hash = 1;
        let (res, _) = run_stroke_case(&c, st);
        co.nontrivial = res.inside > 0 && res.outside > 0;
        if let Some(v) = res.violation {
            if res.only_thin_piece_pinholes && ctx.known.active("C04", "thin-piece-orientation-flip") {
                co.known.push(("C04:thin-piece-orientation-flip".to_string(), v));
            } else {
                co.viol("C04", v);
            }
        }
        if want || !co.violations.is_empty() {
            co.desc = Some(case_desc(&c));
        }
        co
    });

    // a polyline that runs back and forth over itself hundreds of times: the pieces of the stroke pile up
    // winding numbers far beyond what a narrow counter holds
    run_cases(ctx, &mut out, SubSpec { name: "many_passes_over_the_same_spot", cases: ctx.n(24, 600), exhaustive: false, max_secs: 60. }, |i, want, st| {
        let mut rng = ctx.rng("many_passes_over_the_same_spot", i);
        let w = rng.int(24, 40) as i32;
        let h = rng.int(30, 44) as i32;
        let passes = *rng.pick(&[100usize, 127, 128, 129, 130, 200, 255, 256, 257, 300, 512, 513]);
        let (x0, x1, y) = (3.0f32, w as f32 - 3., h as f32 / 2.);
        let mut pb = PathBuilder::new();
        pb.move_to(x0, y);
        for k in 0..passes {
            pb.line_to(if k % 2 == 0 { x1 } else { x0 }, y);
        }
        let style = StrokeStyle { width: rng.range(5., 9.) as f32, cap: *rng.pick(&[LineCap::Butt, LineCap::Square]), join: *rng.pick(&[LineJoin::Bevel, LineJoin::Miter, LineJoin::Round]), miter_limit: 2., dash_array: vec![], dash_offset: 0. };
        let c = StrokeCase { w, h, path: pb.finish(), style, t: Transform::identity(), aa: rng.chance(0.7) };
        let mut co = CaseOut::default();
        co.hash = crate::prng::hash_str(&format!("{}{:?}{}{}", passes, c.style, w, h));
        // the region is that of a single pass: every pass covers the same rectangle (plus caps and joins at the ends)
        let mut one = PathBuilder::new();
        one.move_to(x0, y);
        one.line_to(x1, y);
        let single = StrokeCase { w, h, path: one.finish(), style: c.style.clone(), t: c.t, aa: c.aa };
        let mut dt = DrawTarget::new(w, h);
        dt.stroke(&c.path, &Source::Solid(WHITE), &c.style, &opts(BlendMode::SrcOver, 1., c.aa));
        let subs = stroke_polyline(&single.path, &single.t);
        // must be painted: the body of the one segment all passes share (judged with butt ends); may be painted: that
        // body with square ends, grown by half a width (a round join where the passes turn around is a half disc)
        let hw = c.style.width as f64 / 2.;
        let body = stroke_region(&subs, c.style.width as f64, cap_of(LineCap::Butt), join_of(c.style.join), c.style.miter_limit as f64, &T64::from(&c.t));
        let hull = stroke_region(&subs, c.style.width as f64, cap_of(LineCap::Square), join_of(c.style.join), c.style.miter_limit as f64, &T64::from(&c.t));
        let res_in = check_against_region(dt.get_data(), w, h, &body, 1.0);
        let res_out = check_against_region(dt.get_data(), w, h, &hull, hw + 1.0);
        st.add("passes", passes as u64);
        st.add("many_passes_px_inside_asserted", res_in.inside);
        st.add("many_passes_px_outside_asserted", res_out.outside);
        co.nontrivial = res_in.inside > 0 && res_out.outside > 0;
        let v = res_in.violation.filter(|v| v.contains("lies inside")).or(res_out.violation.filter(|v| v.contains("lies outside")));
        if let Some(v) = v {
            co.viol("C04", format!("{} passes over the same segment: {}", passes, v));
        }
        if want || !co.violations.is_empty() {
            let mut d = case_desc(&single);
            d.set("passes_over_this_segment", J::Int(passes as i64));
            co.desc = Some(d);
        }
        co
    });

    // very wide strokes of gentle curves (hundreds of units wide): only one edge of the stroke crosses the surface;
    // it is the offset curve of the flattened path at the stroker's tolerance of a tenth of a pixel, whatever the width
    run_cases(ctx, &mut out, SubSpec { name: "very_wide_strokes_of_curves", cases: ctx.n(300, 6_000), exhaustive: false, max_secs: 60. }, |i, want, st| {
        let mut rng = ctx.rng("very_wide_strokes_of_curves", i);
        let w = rng.int(30, 60) as i32;
        let h = rng.int(30, 60) as i32;
        let width = rng.range(300., 1500.) as f32;
        let hw = width as f64 / 2.;
        // a curve well above the surface whose lower stroke edge dips into it
        let y0 = -(hw - rng.range(5., h as f64 - 5.));
        let sag = rng.range(20., 120.);
        let mut pb = PathBuilder::new();
        pb.move_to(-200., y0 as f32);
        if rng.chance(0.5) {
            pb.quad_to(w as f32 / 2., (y0 + sag) as f32, w as f32 + 200., y0 as f32);
        } else {
            pb.cubic_to(w as f32 * 0.2, (y0 + sag) as f32, w as f32 * 0.8, (y0 + sag * rng.range(0.3, 1.0)) as f32, w as f32 + 200., y0 as f32);
        }
        let style = StrokeStyle { width, cap: LineCap::Butt, join: *rng.pick(&[LineJoin::Round, LineJoin::Bevel, LineJoin::Miter]), miter_limit: 4., dash_array: vec![], dash_offset: 0. };
        let c = StrokeCase { w, h, path: pb.finish(), style, t: Transform::identity(), aa: true };
        let mut co = CaseOut::default();
        co.hash = crate::prng::hash_str(&format!("{:?}{:?}", c.path, c.style));
        let (res, skipped) = run_stroke_case(&c, st);
        st.add("very_wide_strokes", 1);
        co.nontrivial = !skipped && res.inside > 0 && res.outside > 0;
        if let Some(v) = res.violation {
            co.viol("C04", format!("stroke {} wide: {}", width, v));
        }
        if want || !co.violations.is_empty() {
            co.desc = Some(case_desc(&c));
        }
        co
    });

    // very wide strokes of polylines that are almost but not quite straight (turns of 1e-4 .. 4e-3 rad): on the outer
    // side of such a vertex the two segment rectangles part by half the width times the turn - several pixels - and the
    // join has to fill that wedge; on the inner side they overlap. The surface looks at either side of the vertex.
    run_cases(ctx, &mut out, SubSpec { name: "very_wide_strokes_of_almost_straight_polylines", cases: ctx.n(1_500, 40_000), exhaustive: false, max_secs: 60. }, |i, want, st| {
        let mut rng = ctx.rng("very_wide_strokes_of_almost_straight_polylines", i);
        let w = rng.int(24, 40) as i32;
        let h = rng.int(24, 40) as i32;
        let width = rng.range(1500., 9000.) as f32;
        let hw = width as f64 / 2.;
        let side = if rng.chance(0.5) { 1. } else { -1. };
        // direction of the first segment: along an axis or anywhere
        let a0 = if rng.chance(0.4) { *rng.pick(&[0.0f64, std::f64::consts::FRAC_PI_2, std::f64::consts::PI]) } else { rng.range(0., std::f64::consts::TAU) };
        let d0 = P::new(a0.cos(), a0.sin());
        // the vertex sits half a width away from the middle of the surface, across the stroke
        let v = P::new(w as f64 / 2. + rng.range(-4., 4.), h as f64 / 2. + rng.range(-4., 4.)).add(d0.perp().mul(side * hw));
        let mut pts = vec![v.sub(d0.mul(rng.range(300., 3000.))), v];
        let mut a = a0;
        for _ in 0..rng.int(1, 2) {
            let turn = rng.range(1e-4, 4e-3) * if rng.chance(0.5) { 1. } else { -1. };
            a += turn;
            let last = pts[pts.len() - 1];
            let len = if pts.len() == 2 && rng.chance(0.3) { rng.range(2., 12.) } else { rng.range(300., 3000.) };
            pts.push(last.add(P::new(a.cos(), a.sin()).mul(len)));
        }
        let mut pb = PathBuilder::new();
        pb.move_to(pts[0].x as f32, pts[0].y as f32);
        for q in &pts[1..] {
            pb.line_to(q.x as f32, q.y as f32);
        }
        let style = StrokeStyle { width, cap: LineCap::Butt, join: *rng.pick(&[LineJoin::Round, LineJoin::Bevel, LineJoin::Miter]), miter_limit: *rng.pick(&[1.0f32, 4., 10.]), dash_array: vec![], dash_offset: 0. };
        let c = StrokeCase { w, h, path: pb.finish(), style, t: Transform::identity(), aa: rng.chance(0.8) };
        let mut co = CaseOut::default();
        co.hash = crate::prng::hash_str(&format!("{:?}{:?}", c.path, c.style));
        let (res, skipped) = run_stroke_case(&c, st);
        st.add("very_wide_almost_straight_strokes", 1);
        co.nontrivial = !skipped && res.inside > 0 && res.outside > 0;
        if let Some(v) = res.violation {
            co.viol("C04", format!("stroke {} wide: {}", width, v));
        }
        if want || !co.violations.is_empty() {
            co.desc = Some(case_desc(&c));
        }
        co
    });

    // rectangles with no width, no height or neither, as PathBuilder::rect builds them: sides of no length have no
    // direction, the two long sides turn straight back at either end (no miter there, whatever the limit)
    run_cases(ctx, &mut out, SubSpec { name: "rectangles_without_width_or_height", cases: ctx.n(1_500, 30_000), exhaustive: false, max_secs: 60. }, |i, want, st| {
        let mut rng = ctx.rng("rectangles_without_width_or_height", i);
        let w = rng.int(24, 40) as i32;
        let h = rng.int(24, 40) as i32;
        let (x, y) = (rng.int(8, 14) as f32 + if rng.chance(0.5) { 0.5 } else { 0. }, rng.int(8, 14) as f32);
        let len = rng.int(6, 14) as f32 * if rng.chance(0.3) { -1. } else { 1. };
        let (rw, rh) = match rng.below(4) { 0 => (len, 0.), 1 => (0., len), 2 => (0., 0.), _ => (len, rng.int(5, 9) as f32) };
        let mut pb = PathBuilder::new();
        if rng.chance(0.2) {
            pb.move_to(2., 2.);
            pb.line_to(5., 3.);
        }
        pb.rect(x, y, rw, rh);
        let style = StrokeStyle { width: rng.int(3, 9) as f32, cap: *rng.pick(&[LineCap::Butt, LineCap::Square, LineCap::Round]), join: *rng.pick(&[LineJoin::Miter, LineJoin::Miter, LineJoin::Bevel, LineJoin::Round]), miter_limit: *rng.pick(&[1.0f32, 1.5, 4., 10.]), dash_array: vec![], dash_offset: 0. };
        let t = if rng.chance(0.6) { Transform::identity() } else { Transform::translation(rng.range(-2., 2.) as f32, rng.range(-2., 2.) as f32) };
        let c = StrokeCase { w, h, path: pb.finish(), style, t, aa: rng.chance(0.8) };
        let mut co = CaseOut::default();
        co.hash = crate::prng::hash_str(&format!("{:?}{:?}{:?}", c.path, c.style, c.t));
        let (res, skipped) = run_stroke_case(&c, st);
        st.add(if rw == 0. || rh == 0. { "rectangles_without_width_or_height_stroked" } else { "ordinary_rectangles_stroked" }, 1);
        co.nontrivial = !skipped && res.outside > 0;
        if let Some(v) = res.violation {
            co.viol("C04", format!("rect({}, {}, {}, {}): {}", x, y, rw, rh, v));
        }
        if want || !co.violations.is_empty() {
            co.desc = Some(case_desc(&c));
        }
        co
    });

    // a stroke whose path lies wholly outside the surface but which reaches in because the transform stretches its
    // width most in a direction that is not the image of an axis (a rotation followed by an uneven scale, a shear)
    run_cases(ctx, &mut out, SubSpec { name: "strokes_reaching_in_under_stretching_transforms", cases: ctx.n(3_000, 60_000), exhaustive: false, max_secs: 60. }, |i, want, st| {
        let mut rng = ctx.rng("strokes_reaching_in_under_stretching_transforms", i);
        let c = match gen_reaching_in_case(&mut rng) {
            Some(c) => c,
            None => return CaseOut::default(),
        };
        let mut co = CaseOut::default();
        co.hash = crate::prng::hash_str(&format!("{:?}{:?}{:?}", c.path, c.style, c.t));
        if !well_conditioned(&c.path, &c.t) {
            return co;
        }
        let (res, skipped) = run_stroke_case(&c, st);
        st.add("strokes_from_outside", 1);
        if res.inside > 0 {
            st.add("strokes_from_outside_that_reach_in", 1);
        }
        co.nontrivial = !skipped && res.inside > 0 && res.outside > 0;
        if let Some(v) = res.violation {
            co.viol("C04", v);
        }
        if want || !co.violations.is_empty() {
            co.desc = Some(case_desc(&c));
        }
        co
    });

    // very long miter spikes: two segments that almost reverse (by 1e-3 .. 0.1 rad short of it) under a miter limit
    // in the thousands; the spike runs across the whole surface and is as wide as the stroke at its base
    run_cases(ctx, &mut out, SubSpec { name: "long_miter_spikes", cases: ctx.n(400, 8_000), exhaustive: false, max_secs: 60. }, |i, want, st| {
        let mut rng = ctx.rng("long_miter_spikes", i);
        let w = rng.int(30, 60) as i32;
        let h = rng.int(16, 30) as i32;
        let phi = *rng.pick(&[1.05e-3f64, 1.2e-3, 1.35e-3, 2e-3, 5e-3, 0.02, 0.1]);
        let limit = *rng.pick(&[3000.0f32, 10000.0]);
        let width = rng.range(3., 6.) as f32;
        // A -> B going left, then back to the right at an angle phi: the spike points to the left of B... so B is
        // at the right end and the spike continues to the right; mirrored now and then
        let by = h as f64 / 2. + rng.range(-2., 2.);
        let bx = rng.range(6., 12.);
        let len = rng.range(12., 25.);
        let dir = rng.range(-0.3, 0.3);
        let a = (bx + len * (dir).cos(), by + len * (dir).sin());
        let c = (bx + len * (dir + phi).cos(), by + len * (dir + phi).sin());
        let mirror = rng.chance(0.5);
        let mx = |x: f64| if mirror { w as f64 - x } else { x };
        let mut pb = PathBuilder::new();
        pb.move_to(mx(a.0) as f32, a.1 as f32);
        pb.line_to(mx(bx) as f32, by as f32);
        pb.line_to(mx(c.0) as f32, c.1 as f32);
        let style = StrokeStyle { width, cap: LineCap::Butt, join: LineJoin::Miter, miter_limit: limit, dash_array: vec![], dash_offset: 0. };
        let c4 = StrokeCase { w, h, path: pb.finish(), style, t: Transform::identity(), aa: true };
        let mut co = CaseOut::default();
        co.hash = crate::prng::hash_str(&format!("{:?}{:?}", c4.path, c4.style));
        let mut dt = DrawTarget::new(w, h);
        dt.stroke(&c4.path, &Source::Solid(WHITE), &c4.style, &opts(BlendMode::SrcOver, 1., true));
        let subs = stroke_polyline(&c4.path, &c4.t);
        let reg = stroke_region(&subs, width as f64, cap_of(LineCap::Butt), join_of(LineJoin::Miter), limit as f64, &T64::from(&c4.t));
        let res = check_against_region(dt.get_data(), w, h, &reg, 1.0);
        st.add("spikes", 1);
        co.nontrivial = res.inside > 0 && res.outside > 0;
        if let Some(v) = res.violation {
            co.viol("C04", format!("segments {:.4} rad short of reversing, miter limit {}: {}", phi, limit, v));
        }
        if want || !co.violations.is_empty() {
            co.desc = Some(case_desc(&c4));
        }
        co
    });

    // polylines made of steps exactly one f32 spacing long, out where user space is that coarse (2^23: one unit,
    // 2^24: two units), brought onto the surface by a translation: every step is a segment in its own right
    run_cases(ctx, &mut out, SubSpec { name: "steps_of_one_f32_spacing", cases: ctx.n(300, 6_000), exhaustive: false, max_secs: 60. }, |i, want, st| {
        let mut rng = ctx.rng("steps_of_one_f32_spacing", i);
        let e = *rng.pick(&[23i32, 24]);
        let step = if e == 23 { 1.0f32 } else { 2.0 };
        let d = (2.0f32).powi(e) * if rng.chance(0.5) { -1. } else { 1. };
        // (negative coordinates of that size have the same spacing)
        let w = rng.int(24, 48) as i32;
        let h = rng.int(16, 32) as i32;
        let n = rng.int(8, 16) as usize;
        let (x0, y0) = ((4.0f32 / step).round() * step, ((h as f32 / 2.) / step).round() * step);
        // straight along x or along y (the region is that of the one long segment the steps add up to: the
        // primitives of the single steps are too small for any pixel to lie well inside one of them)
        let along_y = rng.chance(0.3);
        let (x0, y0) = if along_y { (((w as f32 / 2.) / step).round() * step, (3.0f32 / step).round() * step) } else { (x0, y0) };
        let mut pb = PathBuilder::new();
        let (mut x, mut y) = (x0, y0);
        pb.move_to(d + x, d + y);
        let n = if along_y { n.min(((h - 8) as f32 / step) as usize) } else { n };
        for _ in 0..n {
            if along_y {
                y += step;
            } else {
                x += step;
            }
            pb.line_to(d + x, d + y);
        }
        let style = StrokeStyle { width: rng.range(8., 14.) as f32, cap: *rng.pick(&[LineCap::Butt, LineCap::Square]), join: *rng.pick(&[LineJoin::Bevel, LineJoin::Round]), miter_limit: 2., dash_array: vec![], dash_offset: 0. };
        let c = StrokeCase { w, h, path: pb.finish(), style, t: Transform::translation(-d, -d), aa: true };
        let mut co = CaseOut::default();
        co.hash = crate::prng::hash_str(&format!("{:?}{:?}{}", c.path, c.style, e));
        let mut dt = DrawTarget::new(w, h);
        dt.set_transform(&c.t);
        dt.stroke(&c.path, &Source::Solid(WHITE), &c.style, &opts(BlendMode::SrcOver, 1., true));
        let mut one = PathBuilder::new();
        one.move_to(d + x0, d + y0);
        one.line_to(d + x, d + y);
        let subs = stroke_polyline(&one.finish(), &c.t);
        let reg = stroke_region(&subs, c.style.width as f64, cap_of(c.style.cap), join_of(c.style.join), c.style.miter_limit as f64, &T64::from(&c.t));
        // the outline the stroker computes out there is itself rounded to the spacing
        let res = check_against_region(dt.get_data(), w, h, &reg, 1.0 + step as f64);
        st.add("unit_step_polylines", 1);
        co.nontrivial = res.inside > 0 && res.outside > 0;
        if let Some(v) = res.violation {
            co.viol("C04", format!("{} steps of {} at 2^{}: {}", n, step, e, v));
        }
        if want || !co.violations.is_empty() {
            co.desc = Some(case_desc(&c));
        }
        co
    });

    run_cases(ctx, &mut out, SubSpec { name: "strokes", cases: ctx.n(40_000, 1_000_000), exhaustive: false, max_secs: secs }, |i, want, st| {
        let mut rng = ctx.rng("strokes", i);
        let w = rng.int(8, 48) as i32;
        let h = rng.int(8, 48) as i32;
        let curves = rng.chance(0.3);
        let t = gen_transform_for_stroke(&mut rng, w, h);
        let mut path = gen_polyline_path(&mut rng, w, h, curves, 0.7);
        let mut tries = 0;
        while !well_conditioned(&path, &t) && tries < 20 {
            path = gen_polyline_path(&mut rng, w, h, curves, 0.7);
            tries += 1;
        }
        let width = match rng.below(6) {
            0 => rng.range(0.3, 3.),
            1 => rng.range(12., 40.),
            _ => rng.range(3., 12.),
        } as f32;
        let style = StrokeStyle {
            width,
            cap: *rng.pick(&[LineCap::Butt, LineCap::Round, LineCap::Square]),
            join: *rng.pick(&[LineJoin::Miter, LineJoin::Round, LineJoin::Bevel]),
            miter_limit: *rng.pick(&[0.0f32, 0.5, 1.0, 1.2, 1.5, 2.0, 3.0, 4.0, 10.0, 100.0]),
            dash_array: vec![],
            dash_offset: 0.,
        };
        // now and then every vertex lies off the surface, further away than half the width, so that only
        // miter tips and cap corners can reach onto it
        let (mut path, mut style) = (path, style);
        if rng.chance(0.12) {
            if rng.chance(0.5) {
                style.join = LineJoin::Miter;
                style.miter_limit = *rng.pick(&[4.0f32, 10.0]);
            } else {
                style.cap = LineCap::Square;
            }
            style.width = rng.range(6., 24.) as f32;
            let pts: Vec<Point> = path.ops.iter().filter_map(|o| match o { PathOp::MoveTo(p) | PathOp::LineTo(p) => Some(*p), PathOp::QuadTo(_, p) => Some(*p), PathOp::CubicTo(_, _, p) => Some(*p), _ => None }).collect();
            if !pts.is_empty() {
                let max_x = pts.iter().map(|p| p.x).fold(f32::MIN, f32::max);
                let gap = style.width / 2. * rng.range(1.02, 1.6) as f32;
                let dx = -gap - max_x;
                path = path.transform(&Transform::translation(dx, 0.));
            }
        }
        // now and then the path lives far from the origin of user space and a translation brings it back: its
        // vertices are then only as fine as f32 is out there (the case is judged with the vertices as stored)
        let (path, t) = if rng.chance(0.06) {
            // (up to 2^18: beyond that the stroker's own f32 arithmetic in user space is coarser than the margin)
            let e = *rng.pick(&[10i32, 12, 14, 16, 17, 18]);
            let d = (2.0f32).powi(e) * if rng.chance(0.5) { -1. } else { 1. };
            let lin_is_identity = t.m11 == 1. && t.m12 == 0. && t.m21 == 0. && t.m22 == 1.;
            if e <= 16 || lin_is_identity {
                st.add("paths_far_from_the_origin", 1);
                (path.transform(&Transform::translation(d, d)), Transform::translation(-d, -d).then(&t))
            } else {
                (path, t)
            }
        } else {
            (path, t)
        };
        let c = StrokeCase { w, h, path, style, t, aa: rng.chance(0.8) };
        let mut co = CaseOut::default();
        co.hash = crate::prng::hash_str(&format!("{:?}{:?}{:?}{}", c.path, c.style, c.t, c.aa));
        if !well_conditioned(&c.path, &c.t) {
            st.add("cases_skipped_ill_conditioned", 1);
            return co;
        }
        let (res, _skipped) = run_stroke_case(&c, st);
        co.nontrivial = res.inside > 0 && res.outside > 0;
        st.add(&format!("join:{:?}", c.style.join), 1);
        st.add(&format!("cap:{:?}", c.style.cap), 1);
        if let Some(v) = res.violation {
            if res.only_thin_piece_pinholes && ctx.known.active("C04", "thin-piece-orientation-flip") {
                co.known.push(("C04:thin-piece-orientation-flip".to_string(), v));
            } else {
                co.viol("C04", v);
            }
        }
        if want || !co.violations.is_empty() {
            co.desc = Some(case_desc(&c));
        }
        co
    });
    out.assume("round joins and caps are judged against polygons inscribed in / circumscribed about the true discs; for curved paths the polyline is Path::flatten() with the stroker's tolerance (0.1 device px scaled by the transform): with bevel and miter joins the region depends on where the polyline's vertices are; the fidelity of flatten() itself is C16's subject");
    out
}
