//! Fonts for the text workloads (draw_text / draw_glyphs). The fonts are the DejaVu files of the image;
//! when none can be loaded (or the harness is built without the `text` feature, as under Miri) the
//! generators emit no text calls and say so in the statistics.

#[cfg(feature = "text")]
mod imp {
    use font_kit::font::Font;
    use raqote::*;

    const FILES: [&str; 3] = ["/usr/share/fonts/truetype/dejavu/DejaVuSans.ttf", "/usr/share/fonts/truetype/dejavu/DejaVuSerif-Bold.ttf", "/usr/share/fonts/truetype/dejavu/DejaVuSansMono.ttf"];

    thread_local! {
        // FreeType faces are not shared between threads: one set per thread
        static FONTS: Vec<Font> = FILES.iter().filter_map(|f| Font::from_path(f, 0).ok()).collect();
    }

    pub fn available() -> usize {
        FONTS.with(|f| f.len())
    }

    /// draws `text` (or, with `glyphs`, the same glyph ids at the same positions through draw_glyphs)
    #[allow(clippy::too_many_arguments)]
    pub fn draw(dt: &mut DrawTarget, font: usize, size: f32, text: &str, x: f32, y: f32, glyphs: bool, src: &Source, o: &DrawOptions) {
        FONTS.with(|fs| {
            if fs.is_empty() {
                return;
            }
            let f = &fs[font % fs.len()];
            if glyphs {
                let mut ids = Vec::new();
                let mut pos = Vec::new();
                let mut px = x;
                for c in text.chars() {
                    if let Some(id) = f.glyph_for_char(c) {
                        ids.push(id);
                        pos.push(Point::new(px, y));
                        // hand-placed: a fixed pitch instead of the font's advance
                        px += size * 0.7;
                    }
                }
                dt.draw_glyphs(f, size, &ids, &pos, src, o);
            } else if text.chars().all(|c| f.glyph_for_char(c).is_some()) {
                dt.draw_text(f, size, text, Point::new(x, y), src, o);
            }
        })
    }
}

#[cfg(not(feature = "text"))]
mod imp {
    use raqote::*;
    pub fn available() -> usize {
        0
    }
    #[allow(clippy::too_many_arguments)]
    pub fn draw(_dt: &mut DrawTarget, _font: usize, _size: f32, _text: &str, _x: f32, _y: f32, _glyphs: bool, _src: &Source, _o: &DrawOptions) {}
}

pub use imp::*;
