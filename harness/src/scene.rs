//! The instrumented boundary around DrawTarget (DESIGN.md 2.2): executes operations on the
//! real target while a shadow model (clip stack, layer stack, transform) and per-pixel oracles
//! watch every call. Monitors are tagged with the property they belong to:
//!   C02 frame: pixels with zero shape coverage / outside the clip / outside the hull keep their value
//!   C03 formula: per-pixel compositing formula, exact end points, locality, source scaling
//!   C05 clip: effective clip equals the shadow model, pop restores, rect clips equal unclipped drawing
//!   C06 layers: draws land in the innermost layer only, layers start transparent, pop composites once
//!   C11 transform untouched by clear/pop_layer
//!   C18 premultiplied validity

use crate::gen::*;
use crate::json::J;
use crate::known::Known;
use crate::ops::*;
use crate::runner::*;
use crate::util::*;
use raqote::*;
use std::collections::HashMap;

pub const TAU: f64 = 3.0;

thread_local! {
    /// index and name of the operation being executed (for attributing panics)
    static CURRENT_OP: std::cell::Cell<(usize, &'static str)> = std::cell::Cell::new((0, ""));
}

#[derive(Clone, Debug)]
pub struct Scene {
    pub w: i32,
    pub h: i32,
    pub init: Vec<u32>,
    pub ops: Vec<Op>,
}

impl Scene {
    pub fn desc(&self) -> J {
        let mut o = J::obj();
        o.set("surface", J::s(&format!("{}x{}", self.w, self.h)));
        o.set("initial_pixels", pixels_json(&self.init));
        o.set("ops", ops_json(&self.ops));
        o
    }
}

pub fn identity() -> Transform {
    Transform::identity()
}

fn rect_path(x: f32, y: f32, w: f32, h: f32) -> Path {
    let mut pb = PathBuilder::new();
    pb.rect(x, y, w, h);
    pb.finish()
}

pub fn alpha_of(buf: &[u32]) -> Vec<u8> {
    buf.iter().map(|p| (p >> 24) as u8).collect()
}

/// Shape coverage of a fill, observed on a fresh target (identity I1).
pub fn probe_cov_fill(w: i32, h: i32, ctm: &Transform, path: &Path, aa: bool) -> Vec<u8> {
    let mut dt = DrawTarget::new(w, h);
    dt.set_transform(ctm);
    dt.fill(path, &Source::Solid(WHITE), &opts(BlendMode::SrcOver, 1., aa));
    alpha_of(dt.get_data())
}

/// coverage of a text call: the glyph mask font-kit produces, observed through a white SrcOver draw
pub fn probe_cov_text(w: i32, h: i32, ctm: &Transform, t: &TextSpec, aa: bool) -> Vec<u8> {
    let mut dt = DrawTarget::new(w, h);
    dt.set_transform(ctm);
    crate::text::draw(&mut dt, t.font, t.size, &t.text, t.x, t.y, t.glyphs, &Source::Solid(WHITE), &opts(BlendMode::SrcOver, 1., aa));
    alpha_of(dt.get_data())
}

pub fn probe_cov_stroke(w: i32, h: i32, ctm: &Transform, path: &Path, style: &StrokeStyle, aa: bool) -> Vec<u8> {
    let mut dt = DrawTarget::new(w, h);
    dt.set_transform(ctm);
    dt.stroke(path, &Source::Solid(WHITE), style, &opts(BlendMode::SrcOver, 1., aa));
    alpha_of(dt.get_data())
}

/// The per-pixel source colour (after global alpha) under `ctm`, observed with a full-surface
/// Src fill on a scratch target (identity I2). None if the transform is not invertible.
pub fn probe_source(w: i32, h: i32, ctm: &Transform, src: &SrcSpec, alpha: f32) -> Option<Vec<u32>> {
    probe_source_checked(w, h, ctm, src, alpha).ok()
}

pub enum ProbeFail {
    /// the transform is not invertible, or puts the surface beyond 1e6 user units
    OutOfRange,
    /// the transform is fine, but the fill of a rectangle containing the whole surface with 3 px to spare
    /// left this pixel with this coverage: not a property of the source, a defect in its own right
    NotCovered(i32, i32, u8),
}

pub fn probe_source_checked(w: i32, h: i32, ctm: &Transform, src: &SrcSpec, alpha: f32) -> Result<Vec<u32>, ProbeFail> {
    let t = T64::from(ctm);
    let inv = t.inverse().ok_or(ProbeFail::OutOfRange)?;
    if ctm.inverse().is_none() {
        return Err(ProbeFail::OutOfRange);
    }
    // a device-space rectangle around the surface, expressed in user space
    let m = 3.0;
    let corners = [(-m, -m), (w as f64 + m, -m), (w as f64 + m, h as f64 + m), (-m, h as f64 + m)];
    let mut pb = PathBuilder::new();
    for (i, c) in corners.iter().enumerate() {
        let (x, y) = inv.apply(c.0, c.1);
        if !x.is_finite() || !y.is_finite() || x.abs() > 1e6 || y.abs() > 1e6 {
            return Err(ProbeFail::OutOfRange);
        }
        if i == 0 {
            pb.move_to(x as f32, y as f32)
        } else {
            pb.line_to(x as f32, y as f32)
        }
    }
    pb.close();
    let path = pb.finish();
    let cov = probe_cov_fill(w, h, ctm, &path, true);
    if let Some(k) = cov.iter().position(|c| *c != 255) {
        return Err(ProbeFail::NotCovered(k as i32 % w.max(1), k as i32 / w.max(1), cov[k]));
    }
    let mut dt = DrawTarget::new(w, h);
    dt.set_transform(ctm);
    // Through Src, or - every other case, by a hash of what is asked for - through SrcOver onto the transparent
    // surface: with full coverage both store the shader's output unchanged (src + 0 * (1 - a)), but they take
    // different span blitters.
    let hsh = crate::prng::hash_u64s(&[w as u64, h as u64, alpha.to_bits() as u64, ctm.m11.to_bits() as u64, ctm.m12.to_bits() as u64, ctm.m31.to_bits() as u64, ctm.m32.to_bits() as u64]);
    let mode = if hsh & 1 == 0 { BlendMode::Src } else { BlendMode::SrcOver };
    src.with(|s| dt.fill(&path, s, &opts(mode, alpha, true)));
    Ok(dt.get_data().to_vec())
}

/// The clip a target currently applies, observed by filling the whole (zeroed) surface with white
/// under the identity transform. Pixels and transform are restored. Needs no open layer.
pub fn effective_clip(dt: &mut DrawTarget, w: i32, h: i32) -> Vec<u8> {
    let saved_t = *dt.get_transform();
    let saved: Vec<u32> = dt.get_data().to_vec();
    for p in dt.get_data_mut() {
        *p = 0;
    }
    dt.set_transform(&identity());
    dt.fill(&rect_path(0., 0., w as f32, h as f32), &Source::Solid(WHITE), &opts(BlendMode::SrcOver, 1., true));
    let eff = alpha_of(dt.get_data());
    dt.get_data_mut().copy_from_slice(&saved);
    dt.set_transform(&saved_t);
    eff
}

pub fn opacity_byte(o: f32) -> u32 {
    // round(opacity * 255) clamped to 0..255 (NaN counts as 0)
    let v = o * 255. + 0.5;
    if v.is_nan() || v <= 0. {
        0
    } else if v >= 255. {
        255
    } else {
        v as u32
    }
}

pub struct Expect {
    pub exact: Option<u32>,
    pub ideal: [f64; 4],
}

/// The statement's compositing rule for one pixel.
pub fn expect_pixel(s: u32, d: u32, m: u32, cm: u32, mode: BlendMode) -> Expect {
    let k = (m as f64 / 255.) * (cm as f64 / 255.);
    let sc = ch(s);
    let dc = ch(d);
    let mut ideal = [0f64; 4];
    let b = blend_of_record(mode)(s, d);
    if mode == BlendMode::SrcOver {
        let sa = sc[0] as f64 / 255.;
        for i in 0..4 {
            ideal[i] = sc[i] as f64 * k + dc[i] as f64 * (1. - sa * k);
        }
    } else {
        let bc = ch(b);
        for i in 0..4 {
            ideal[i] = dc[i] as f64 + (bc[i] - dc[i]) as f64 * k;
        }
    }
    let exact = if m == 0 || cm == 0 {
        Some(d)
    } else if m == 255 && cm == 255 {
        Some(b)
    } else if mode == BlendMode::SrcOver && s == 0 {
        Some(d)
    } else {
        None
    };
    Expect { exact, ideal }
}

pub fn deviation(o: u32, ideal: &[f64; 4]) -> f64 {
    let oc = ch(o);
    let mut m = 0f64;
    for i in 0..4 {
        m = m.max((oc[i] as f64 - ideal[i]).abs());
    }
    m
}

#[derive(Clone)]
enum ClipEntry {
    Rect(i32, i32, i32, i32),
    Path(Vec<u8>),
}

struct LayerInfo {
    opacity: f32,
    mode: BlendMode,
}

/// which parts of the monitoring to run (the per-property checks emphasise different parts)
#[derive(Clone, Copy)]
pub struct MonitorOpts {
    /// compare rect-clipped draws with an unclipped twin (exact), C05
    pub unclipped_twin: bool,
    /// probe the real target's effective clip at clip changes, C05
    pub probe_real_clip: bool,
}

impl Default for MonitorOpts {
    fn default() -> Self {
        MonitorOpts { unclipped_twin: true, probe_real_clip: true }
    }
}

pub struct Monitor<'a> {
    pub w: i32,
    pub h: i32,
    pub dt: DrawTarget,
    twin: DrawTarget,
    ctm: Transform,
    clips: Vec<ClipEntry>,
    layers: Vec<LayerInfo>,
    eff: Option<Vec<u8>>,
    eff_stack: Vec<Vec<u8>>,
    pub st: &'a mut Stats,
    pub out: &'a mut CaseOut,
    known: &'a Known,
    opts: MonitorOpts,
    op_index: usize,
    pub changed_px: u64,
    pub unchanged_px: u64,
    /// a known finding has put an invalid pixel into a buffer: validity is no longer asserted in this scene
    tainted: bool,
    /// the buffer being checked is a layer buffer or the destination of pop_layer
    layer_dest: bool,
    /// the real target's user space is magnified by this factor (see step)
    scale: Option<f32>,
    real_ctm: Transform,
}

struct DrawModel {
    cov: Vec<u8>,
    /// per-pixel source colour; None = could not be observed (no formula check then)
    src: Option<Vec<u32>>,
    mode: BlendMode,
    /// device-space box (x0, y0, x1, y1) outside of which nothing may change (rasteriser independent)
    hull: Option<[f64; 4]>,
    /// the call must not change anything (singular transform)
    noop: bool,
    /// solid colour and alpha of the call, for the source scaling rule
    solid: Option<(u32, f32)>,
}

impl<'a> Monitor<'a> {
    pub fn new(scene: &Scene, st: &'a mut Stats, out: &'a mut CaseOut, known: &'a Known, opts: MonitorOpts) -> Monitor<'a> {
        let dt = DrawTarget::from_vec(scene.w, scene.h, scene.init.clone());
        let twin = DrawTarget::new(scene.w, scene.h);
        Monitor {
            w: scene.w,
            h: scene.h,
            dt,
            twin,
            ctm: identity(),
            clips: Vec::new(),
            layers: Vec::new(),
            eff: None,
            eff_stack: Vec::new(),
            st,
            out,
            known,
            opts,
            op_index: 0,
            changed_px: 0,
            unchanged_px: 0,
            tainted: false,
            layer_dest: false,
            scale: None,
            real_ctm: identity(),
        }
    }

    fn viol(&mut self, tag: &str, what: String) {
        let w = format!("op #{}: {}", self.op_index, what);
        // a wrong pixel in a layer buffer, or in what pop_layer composites, is a breach of the layer
        // contract as well as of the rule it breaks
        if self.layer_dest && (tag == "C02" || tag == "C03" || tag == "C05") && !self.out.violations.iter().any(|v| v.tag == "C06" && v.what == w) {
            self.out.viol("C06", w.clone());
        }
        self.out.viol(tag, w);
    }

    /// (surface pixels, layer buffers with their rects)
    fn snapshot(&self) -> (Vec<u32>, Vec<(Vec<u32>, IntRect)>) {
        let mut layers = Vec::new();
        let mut i = 0;
        while let Some((buf, rect, _, _)) = self.dt.verif_layer(i) {
            layers.push((buf.to_vec(), rect));
            i += 1;
        }
        (self.dt.get_data().to_vec(), layers)
    }

    fn model_rect(&self) -> Option<(i32, i32, i32, i32)> {
        let mut r = (0, 0, self.w, self.h);
        for c in &self.clips {
            if let ClipEntry::Rect(x0, y0, x1, y1) = c {
                r = (r.0.max(*x0), r.1.max(*y0), r.2.min(*x1), r.3.min(*y1));
            }
        }
        if r.2 > r.0 && r.3 > r.1 {
            Some(r)
        } else {
            None
        }
    }

    fn in_model_rect(&self, r: Option<(i32, i32, i32, i32)>, x: i32, y: i32) -> bool {
        match r {
            Some(r) => x >= r.0 && x < r.2 && y >= r.1 && y < r.3,
            None => false,
        }
    }

    fn effective(&mut self) -> Vec<u8> {
        if self.eff.is_none() {
            self.eff = Some(effective_clip(&mut self.twin, self.w, self.h));
        }
        self.eff.clone().unwrap()
    }

    /// C05: the observed effective clip against the shadow model of the whole stack
    fn check_clip_model(&mut self) {
        let eff = effective_clip(&mut self.twin, self.w, self.h);
        // (recorded first: the early returns below must not leave the previous clip cached)
        self.eff = Some(eff.clone());
        let r = self.model_rect();
        let paths: Vec<Vec<u8>> = self.clips.iter().filter_map(|c| if let ClipEntry::Path(p) = c { Some(p.clone()) } else { None }).collect();
        let band = ((paths.len().saturating_sub(1)) as f64 / 2.).ceil() + 1.0;
        for y in 0..self.h {
            for x in 0..self.w {
                let i = (y * self.w + x) as usize;
                let e = eff[i] as f64;
                if !self.in_model_rect(r, x, y) {
                    if eff[i] != 0 {
                        self.viol("C05", format!("effective clip at ({},{}) is {} but the pixel is outside a pushed clip rectangle", x, y, eff[i]));
                        return;
                    }
                    self.st.add("clip_px_outside_rect_asserted", 1);
                    continue;
                }
                let mut prod = 1.0;
                let mut any_zero = false;
                let mut all_full = true;
                for p in &paths {
                    prod *= p[i] as f64 / 255.;
                    any_zero |= p[i] == 0;
                    all_full &= p[i] == 255;
                }
                if any_zero {
                    if eff[i] != 0 {
                        self.viol("C05", format!("effective clip at ({},{}) is {} but a pushed clip path has zero coverage there", x, y, eff[i]));
                        return;
                    }
                    self.st.add("clip_px_zero_path_asserted", 1);
                } else if all_full {
                    if eff[i] != 255 {
                        self.viol("C05", format!("effective clip at ({},{}) is {} but every pushed clip covers the pixel fully", x, y, eff[i]));
                        return;
                    }
                    self.st.add("clip_px_full_asserted", 1);
                } else {
                    let dev = (e - 255. * prod).abs();
                    self.st.max("max_clip_product_deviation", dev);
                    if dev > band {
                        self.viol("C05", format!("effective clip at ({},{}) is {} but the product of the {} pushed path coverages is {:.2} (band {})", x, y, eff[i], paths.len(), 255. * prod, band));
                        return;
                    }
                    self.st.add("clip_px_product_asserted", 1);
                }
            }
        }
        if self.opts.probe_real_clip && self.layers.is_empty() {
            let real = effective_clip(&mut self.dt, self.w, self.h);
            if real != eff {
                let i = real.iter().zip(eff.iter()).position(|(a, b)| a != b).unwrap();
                self.viol("C05", format!("the target's effective clip differs from a target that only saw the clip calls: at ({},{}) {} vs {}", i as i32 % self.w, i as i32 / self.w, real[i], eff[i]));
            }
            self.st.add("real_clip_probes", 1);
        }
        self.eff = Some(eff);
    }

    fn draw_model(&self, op: &Op) -> DrawModel {
        let (w, h) = (self.w, self.h);
        let n = (w * h) as usize;
        let t64 = T64::from(&self.ctm);
        let singular = self.ctm.inverse().is_none();
        let hull_of = |path: &Path, grow: f64| -> Option<[f64; 4]> {
            let mut b = [f64::INFINITY, f64::INFINITY, f64::NEG_INFINITY, f64::NEG_INFINITY];
            let mut add = |p: &Point| {
                let (x, y) = t64.apply(p.x as f64, p.y as f64);
                b[0] = b[0].min(x);
                b[1] = b[1].min(y);
                b[2] = b[2].max(x);
                b[3] = b[3].max(y);
            };
            for o in &path.ops {
                match o {
                    PathOp::MoveTo(p) | PathOp::LineTo(p) => add(p),
                    PathOp::QuadTo(c, p) => {
                        add(c);
                        add(p)
                    }
                    PathOp::CubicTo(c1, c2, p) => {
                        add(c1);
                        add(c2);
                        add(p)
                    }
                    PathOp::Close => {}
                }
            }
            if !b[0].is_finite() {
                return Some([0., 0., 0., 0.]);
            }
            let g = grow * t64.max_scale() + 1.5;
            Some([b[0] - g, b[1] - g, b[2] + g, b[3] + g])
        };
        let rect_cov = |x: f32, y: f32, rw: f32, rh: f32, aa: bool| -> Vec<u8> {
            let integer = x == x.trunc() && y == y.trunc() && rw == rw.trunc() && rh == rh.trunc();
            if self.ctm == identity() && integer {
                let (x0, x1) = ((x as i32).min((x + rw) as i32), (x as i32).max((x + rw) as i32));
                let (y0, y1) = ((y as i32).min((y + rh) as i32), (y as i32).max((y + rh) as i32));
                let mut c = vec![0u8; n];
                for py in y0.max(0)..y1.min(h) {
                    for px in x0.max(0)..x1.min(w) {
                        c[(py * w + px) as usize] = 255;
                    }
                }
                c
            } else {
                probe_cov_fill(w, h, &self.ctm, &rect_path(x, y, rw, rh), aa)
            }
        };
        let aa_of = |o: &DrawOptions| o.antialias == AntialiasMode::Gray;
        match op {
            Op::Fill(p, s, o) => DrawModel {
                cov: probe_cov_fill(w, h, &self.ctm, p, aa_of(o)),
                src: probe_source(w, h, &self.ctm, s, o.alpha),
                mode: o.blend_mode,
                hull: hull_of(p, 0.),
                noop: singular,
                solid: if let SrcSpec::Solid(c) = s { Some((*c, o.alpha)) } else { None },
            },
            Op::Stroke(p, s, st, o) => {
                let outset = (st.width.max(0.) as f64 / 2.) * (st.miter_limit.max(1.5) as f64) + 0.2;
                DrawModel {
                    cov: probe_cov_stroke(w, h, &self.ctm, p, st, aa_of(o)),
                    src: probe_source(w, h, &self.ctm, s, o.alpha),
                    mode: o.blend_mode,
                    hull: hull_of(p, outset),
                    noop: singular,
                    solid: if let SrcSpec::Solid(c) = s { Some((*c, o.alpha)) } else { None },
                }
            }
            Op::FillRect(x, y, rw, rh, s, o) => DrawModel {
                cov: rect_cov(*x, *y, *rw, *rh, aa_of(o)),
                src: probe_source(w, h, &self.ctm, s, o.alpha),
                mode: o.blend_mode,
                hull: hull_of(&rect_path(*x, *y, *rw, *rh), 0.),
                noop: singular,
                solid: if let SrcSpec::Solid(c) = s { Some((*c, o.alpha)) } else { None },
            },
            Op::Clear(c) => DrawModel { cov: vec![255; n], src: Some(vec![*c; n]), mode: BlendMode::Src, hull: None, noop: false, solid: None },
            Op::Mask(s, mx, my, mw, mh, data) => {
                let mut c = vec![0u8; n];
                for y in 0..*mh {
                    for x in 0..*mw {
                        let (px, py) = (mx + x, my + y);
                        if px >= 0 && px < w && py >= 0 && py < h {
                            c[(py * w + px) as usize] = data[(y * mw + x) as usize];
                        }
                    }
                }
                DrawModel { cov: c, src: probe_source(w, h, &self.ctm, s, 1.0), mode: BlendMode::SrcOver, hull: Some([*mx as f64, *my as f64, (mx + mw) as f64, (my + mh) as f64]), noop: false, solid: None }
            }
            Op::DrawImageAt(..) | Op::DrawImageWithSizeAt(..) => {
                let (rw, rh, x, y, img, o) = match op {
                    Op::DrawImageAt(x, y, img, o) => (img.w as f32, img.h as f32, *x, *y, img, o),
                    Op::DrawImageWithSizeAt(rw, rh, x, y, img, o) => (*rw, *rh, *x, *y, img, o),
                    _ => unreachable!(),
                };
                // the statement: the whole image stretched over the rectangle (bilinear, padded)
                let spec = SrcSpec::Image {
                    w: img.w,
                    h: img.h,
                    data: img.data.clone(),
                    repeat: false,
                    bilinear: true,
                    transform: Transform::translation(-x, -y).then_scale(img.w as f32 / rw, img.h as f32 / rh),
                };
                DrawModel { cov: rect_cov(x, y, rw, rh, aa_of(o)), src: probe_source(w, h, &self.ctm, &spec, o.alpha), mode: o.blend_mode, hull: hull_of(&rect_path(x, y, rw, rh), 0.), noop: singular, solid: None }
            }
            // glyph shapes belong to font-kit: the coverage is what the same call gives in white on transparent.
            // draw_text/draw_glyphs pass no global alpha on (the statements of C02/C03 do not list them): the
            // formula is asserted for alpha 1 only, frame, clip and premultiplied validity always
            Op::Text(t, s, o) => DrawModel {
                cov: probe_cov_text(w, h, &self.ctm, t, aa_of(o)),
                src: if opacity_byte(o.alpha) == 255 { probe_source(w, h, &self.ctm, s, 1.0) } else { None },
                mode: o.blend_mode,
                hull: None,
                noop: singular,
                solid: None,
            },
            _ => unreachable!(),
        }
    }

    /// checks one destination buffer after a drawing call
    #[allow(clippy::too_many_arguments)]
    fn check_dest(&mut self, what: &str, before: &[u32], after: &[u32], bounds: IntRect, cov: &dyn Fn(i32, i32) -> u32, src: Option<&dyn Fn(i32, i32) -> u32>, mode: BlendMode, hull: Option<[f64; 4]>, noop: bool) {
        let eff = self.effective();
        let mrect = self.model_rect();
        let paths: Vec<Vec<u8>> = self.clips.iter().filter_map(|c| if let ClipEntry::Path(p) = c { Some(p.clone()) } else { None }).collect();
        let bw = bounds.max.x - bounds.min.x;
        let mut locality: HashMap<(u32, u32, u32, u32), u32> = HashMap::new();
        let mut reported = [false; 4];
        for y in bounds.min.y..bounds.max.y {
            for x in bounds.min.x..bounds.max.x {
                let bi = ((y - bounds.min.y) * bw + (x - bounds.min.x)) as usize;
                let (d, o) = (before[bi], after[bi]);
                if o != d {
                    self.changed_px += 1
                } else {
                    self.unchanged_px += 1
                }
                let on_surface = x >= 0 && x < self.w && y >= 0 && y < self.h;
                if !on_surface {
                    // layers never extend beyond the surface; nothing to model here
                    if o != d && !reported[0] {
                        reported[0] = true;
                        self.viol("C02", format!("{}: pixel ({},{}) outside the surface changed {} -> {}", what, x, y, hex(d), hex(o)));
                    }
                    continue;
                }
                let si = (y * self.w + x) as usize;
                let m = if noop { 0 } else { cov(x, y) };
                let cm = eff[si] as u32;
                let outside_rect = !self.in_model_rect(mrect, x, y);
                let zero_path = paths.iter().any(|p| p[si] == 0);
                let outside_hull = match hull {
                    Some(hb) => (x as f64 + 1.) <= hb[0] || (x as f64) >= hb[2] || (y as f64 + 1.) <= hb[1] || (y as f64) >= hb[3],
                    None => false,
                };
                // C18 on every pixel whose inputs are valid
                let s_opt = src.map(|f| f(x, y));
                if valid_premul(d) && s_opt.map(valid_premul).unwrap_or(true) {
                    self.st.add("px_premul_asserted", 1);
                    if !valid_premul(o) {
                        // known: sw-composite's Color formula itself returns invalid pixels
                        let formula_invalid = mode == BlendMode::Color && s_opt.map(|s| !valid_premul(blend_of_record(mode)(s, d))).unwrap_or(false);
                        if formula_invalid && self.known.active("C18", "sw-composite-color-blend-invalid") {
                            self.tainted = true;
                            self.out.known.push(("C18:sw-composite-color-blend-invalid".to_string(), format!("Color blend of s={} over d={} gives {}", hex(s_opt.unwrap()), hex(d), hex(o))));
                        } else if !reported[1] {
                            reported[1] = true;
                            self.viol("C18", format!("{}: pixel ({},{}) became {} (a colour channel exceeds alpha); before {}, source {:?}, coverage {}, clip {}, mode {}", what, x, y, hex(o), hex(d), s_opt.map(hex), m, cm, mode_name(mode)));
                        }
                    }
                }
                if m == 0 || outside_rect || zero_path || outside_hull {
                    self.st.add("px_frame_asserted", 1);
                    if o != d {
                        let why = if outside_hull {
                            "lies outside the shape's dilated hull"
                        } else if m == 0 {
                            "has zero shape coverage"
                        } else if outside_rect {
                            "lies outside a pushed clip rectangle"
                        } else {
                            "has zero coverage in a pushed clip path"
                        };
                        if !reported[2] {
                            reported[2] = true;
                            self.viol("C02", format!("{}: pixel ({},{}) {} but changed {} -> {} (mode {})", what, x, y, why, hex(d), hex(o), mode_name(mode)));
                            if m != 0 && (outside_rect || zero_path) {
                                self.viol("C05", format!("{}: pixel ({},{}) {} but changed {} -> {}", what, x, y, why, hex(d), hex(o)));
                            }
                        }
                    }
                    continue;
                }
                let s = match s_opt {
                    Some(s) => s,
                    None => {
                        self.st.add("px_source_unobservable_skipped", 1);
                        continue;
                    }
                };
                let e = expect_pixel(s, d, m, cm, mode);
                if let Some(x_exact) = e.exact {
                    self.st.add("px_exact_asserted", 1);
                    if o != x_exact && !reported[3] {
                        let formula_invalid = mode == BlendMode::Color && !valid_premul(blend_of_record(mode)(s, d));
                        let _ = formula_invalid;
                        reported[3] = true;
                        self.viol("C03", format!("{}: pixel ({},{}) = {} but the rule gives exactly {} (source {}, before {}, coverage {}, clip {}, mode {})", what, x, y, hex(o), hex(x_exact), hex(s), hex(d), m, cm, mode_name(mode)));
                    }
                } else {
                    let dev = deviation(o, &e.ideal);
                    self.st.add("px_tolerance_asserted", 1);
                    self.st.max("max_deviation_from_ideal_lsb", dev);
                    if dev > TAU && !reported[3] {
                        reported[3] = true;
                        self.viol("C03", format!("{}: pixel ({},{}) = {} deviates {:.2} LSB from the interpolation [{:.1},{:.1},{:.1},{:.1}] (source {}, before {}, coverage {}, clip {}, mode {})", what, x, y, hex(o), dev, e.ideal[0], e.ideal[1], e.ideal[2], e.ideal[3], hex(s), hex(d), m, cm, mode_name(mode)));
                    }
                }
                // locality: identical inputs give identical results wherever the pixel is
                let key = (s, d, m, cm);
                if let Some(prev) = locality.get(&key) {
                    self.st.add("px_locality_pairs", 1);
                    if *prev != o && !reported[3] {
                        reported[3] = true;
                        self.viol("C03", format!("{}: two pixels with identical inputs (source {}, before {}, coverage {}, clip {}) got {} and {} (second at ({},{}))", what, hex(s), hex(d), m, cm, hex(*prev), hex(o), x, y));
                    }
                } else {
                    locality.insert(key, o);
                }
            }
        }
    }

    pub fn step(&mut self, op: &Op) {
        CURRENT_OP.with(|c| c.set((self.op_index, op.name())));
        // In a scaled scene the real target gets the call's twin under a user space magnified by a power of two
        // (exact in f32, bit-identical pictures: C11's scale-invariance workload), while the shadow model, the
        // probes and the clip-only twin keep working with the call as written. A defect that depends on the
        // scale then shows as a difference between the two instead of hiding in a probe that shares it.
        let real_op: Op = match self.scale {
            Some(k) => scaled_twin(op, k).unwrap_or_else(|| op.clone()),
            None => op.clone(),
        };
        let real_op = &real_op;
        match op {
            Op::UserScale(e) => {
                let k = (2.0f32).powi(*e);
                self.scale = Some(k);
                self.dt.set_transform(&Transform::scale(k, k).then(&self.ctm));
                self.real_ctm = *self.dt.get_transform();
                self.st.add("scenes_run_under_a_power_of_two_user_scale", 1);
            }
            Op::SetTransform(t) => {
                real_op.apply(&mut self.dt);
                self.real_ctm = *self.dt.get_transform();
                self.twin.set_transform(t);
                self.ctm = *t;
            }
            Op::PushClipRect(x0, y0, x1, y1) => {
                let prev = self.effective();
                self.eff_stack.push(prev);
                real_op.apply(&mut self.dt);
                op.apply(&mut self.twin);
                self.clips.push(ClipEntry::Rect(*x0, *y0, *x1, *y1));
                self.check_clip_model();
            }
            Op::PushClip(p) => {
                let prev = self.effective();
                self.eff_stack.push(prev);
                real_op.apply(&mut self.dt);
                op.apply(&mut self.twin);
                // the coverage of the path's image under the transform in force now (pre-transformed and
                // filled under the identity: a singular transform still rasterises the degenerate image
                // for a clip, while a fill under it draws nothing at all)
                let pre = p.clone().transform(&self.ctm);
                let cov_fill = probe_cov_fill(self.w, self.h, &identity(), &pre, true);
                // the antialiased coverage of the clip path itself: what pushing it alone lets through. It may differ
                // from filling the same path by a sample cell or two next to the outline (a fill drops cells that
                // stray outside the path's bounding box, the surface-sized clip mask keeps them), not by more
                let cov = {
                    let mut t = DrawTarget::new(self.w, self.h);
                    t.push_clip(&pre);
                    effective_clip(&mut t, self.w, self.h)
                };
                if let Some(k) = cov.iter().zip(cov_fill.iter()).position(|(a, b)| (*a as i32 - *b as i32).abs() > 32) {
                    let msg = format!("the clip path lets {} through at ({},{}) but filling the same path covers the pixel by {}", cov[k], k as i32 % self.w, k as i32 / self.w, cov_fill[k]);
                    self.viol("C05", msg.clone());
                    // (what is drawn through it changes pixels that the path does not cover, or spares pixels it covers)
                    self.viol("C02", msg);
                }
                self.st.max("max_difference_between_clip_mask_and_fill_coverage", cov.iter().zip(cov_fill.iter()).map(|(a, b)| (*a as i32 - *b as i32).abs()).max().unwrap_or(0) as f64);
                self.clips.push(ClipEntry::Path(cov));
                self.check_clip_model();
            }
            Op::PopClip => {
                real_op.apply(&mut self.dt);
                op.apply(&mut self.twin);
                self.clips.pop();
                self.check_clip_model();
                let want = self.eff_stack.pop().unwrap_or_default();
                let got = self.effective();
                self.st.add("pop_clip_restores_checked", 1);
                if want != got {
                    self.viol("C05", "pop_clip did not restore the clip in force before the matching push".to_string());
                }
            }
            Op::PushLayer(o, m) => {
                let before = self.snapshot();
                real_op.apply(&mut self.dt);
                let after = self.snapshot();
                self.layers.push(LayerInfo { opacity: *o, mode: *m });
                if after.0 != before.0 || after.1.len() != before.1.len() + 1 || after.1[..before.1.len()] != before.1[..] {
                    self.viol("C06", "push_layer changed the surface or an outer layer".to_string());
                } else {
                    let top = &after.1[after.1.len() - 1];
                    if top.0.iter().any(|p| *p != 0) {
                        self.viol("C06", "a freshly pushed layer is not transparent".to_string());
                    }
                    // the layer must be able to hold everything the clip lets through
                    if let Some(r) = self.model_rect() {
                        let lr = top.1;
                        if lr.min.x > r.0 || lr.min.y > r.1 || lr.max.x < r.2 || lr.max.y < r.3 {
                            self.viol("C06", format!("layer rect {:?} does not contain the clip's rectangle {:?}", lr, r));
                        }
                    }
                }
                if self.dt.get_transform() != &self.real_ctm {
                    self.viol("C06", "push_layer changed the transform".to_string());
                }
                self.st.add("push_layer_checked", 1);
            }
            Op::PopLayer => {
                let before = self.snapshot();
                let info = self.layers.pop().expect("balanced");
                real_op.apply(&mut self.dt);
                let after = self.snapshot();
                let nl = before.1.len();
                if after.1.len() != nl - 1 {
                    self.viol("C06", "pop_layer did not remove exactly one layer".to_string());
                    return;
                }
                if self.dt.get_transform() != &self.real_ctm || !bitwise_eq(self.dt.get_transform(), &self.real_ctm) {
                    self.viol("C11", "pop_layer changed the transform".to_string());
                    self.viol("C06", "pop_layer changed the transform".to_string());
                }
                let (g, lrect) = before.1[nl - 1].clone();
                let lw = lrect.max.x - lrect.min.x;
                let ob = opacity_byte(info.opacity);
                let cov = move |x: i32, y: i32| -> u32 {
                    if x >= lrect.min.x && x < lrect.max.x && y >= lrect.min.y && y < lrect.max.y {
                        ob
                    } else {
                        0
                    }
                };
                let g2 = g.clone();
                let srcf = move |x: i32, y: i32| -> u32 {
                    if x >= lrect.min.x && x < lrect.max.x && y >= lrect.min.y && y < lrect.max.y {
                        g2[((y - lrect.min.y) * lw + (x - lrect.min.x)) as usize]
                    } else {
                        0
                    }
                };
                // destination: the parent
                self.layer_dest = true;
                if nl >= 2 {
                    let (pb, prect) = &before.1[nl - 2];
                    let (pa, _) = &after.1[nl - 2];
                    self.check_dest("pop_layer (into the outer layer)", pb, pa, *prect, &cov, Some(&srcf), info.mode, None, false);
                    if after.0 != before.0 {
                        self.viol("C06", "pop_layer of a nested layer changed the surface".to_string());
                    }
                    for i in 0..nl - 2 {
                        if after.1[i] != before.1[i] {
                            self.viol("C06", "pop_layer changed a layer other than the parent".to_string());
                        }
                    }
                } else {
                    let b = IntRect::new(IntPoint::new(0, 0), IntPoint::new(self.w, self.h));
                    self.check_dest("pop_layer", &before.0, &after.0, b, &cov, Some(&srcf), info.mode, None, false);
                }
                self.layer_dest = false;
                self.st.add("pop_layer_checked", 1);
                // clips pushed while the layer was open are in force on the surface now: the target's effective clip
                // must be what a target that only ever saw the clip calls has (a clip that remembers something of
                // the layer it was pushed in - its rectangle, its origin - differs here)
                if self.opts.probe_real_clip && self.layers.is_empty() && !self.clips.is_empty() {
                    let want = self.effective();
                    let real = effective_clip(&mut self.dt, self.w, self.h);
                    self.st.add("real_clip_probes_after_pop_layer", 1);
                    if let Some(i) = real.iter().zip(want.iter()).position(|(a, b)| a != b) {
                        self.viol("C05", format!("after pop_layer the target's effective clip differs from a target that only saw the clip calls: at ({},{}) {} vs {}", i as i32 % self.w, i as i32 / self.w, real[i], want[i]));
                    }
                }
            }
            _ => {
                // drawing calls
                let model = self.draw_model(op);
                let before = self.snapshot();
                real_op.apply(&mut self.dt);
                let after = self.snapshot();
                if !bitwise_eq(self.dt.get_transform(), &self.real_ctm) {
                    self.viol("C11", format!("{} changed the transform", op.name()));
                }
                if after.1.len() != before.1.len() {
                    self.viol("C06", format!("{} changed the number of open layers", op.name()));
                    return;
                }
                let w = self.w;
                let cov_v = model.cov;
                let cov = move |x: i32, y: i32| -> u32 { cov_v[(y * w + x) as usize] as u32 };
                let src_v = model.src;
                let srcf = src_v.as_ref().map(|v| move |x: i32, y: i32| -> u32 { v[(y * w + x) as usize] });
                let nl = before.1.len();
                // source scaling rule for solid sources
                if let (Some((c, a)), Some(v)) = (model.solid, src_v.as_ref()) {
                    if !v.is_empty() {
                        let ab = opacity_byte(a) as f64;
                        let cc = ch(c);
                        let sc = ch(v[0]);
                        let mut ok = true;
                        for i in 0..4 {
                            ok &= (sc[i] as f64 - cc[i] as f64 * ab / 255.).abs() <= 1.0;
                        }
                        if ab == 255. {
                            ok &= v[0] == c;
                        }
                        if ab == 0. {
                            ok &= v[0] == 0;
                        }
                        self.st.add("source_scaling_checked", 1);
                        if !ok {
                            self.viol("C03", format!("solid source {} with alpha {} is shaded as {}", hex(c), a, hex(v[0])));
                        }
                    }
                }
                // source scaling rule for the other source kinds: the shaded colour under a global alpha
                // is the alpha = 1 colour scaled by the alpha byte (exact at both ends)
                let general = match op {
                    Op::Fill(_, sp, o) | Op::Stroke(_, sp, _, o) | Op::FillRect(_, _, _, _, sp, o) if !matches!(sp, SrcSpec::Solid(_)) => Some((sp, o.alpha)),
                    _ => None,
                };
                if let (Some((sp, a)), Some(v)) = (general, src_v.as_ref()) {
                    if let Some(v1) = probe_source(self.w, self.h, &self.ctm, sp, 1.0) {
                        let ab = opacity_byte(a) as f64;
                        self.st.add("source_scaling_checked", 1);
                        for k in 0..v.len() {
                            let (ca, c1) = (ch(v[k]), ch(v1[k]));
                            let mut ok = true;
                            for i in 0..4 {
                                ok &= (ca[i] as f64 - c1[i] as f64 * ab / 255.).abs() <= 2.0;
                            }
                            if ab == 255. {
                                ok &= v[k] == v1[k];
                            }
                            if ab == 0. {
                                ok &= v[k] == 0;
                            }
                            if !ok {
                                self.viol("C03", format!("{} source with alpha {} is shaded as {} at ({},{}) where alpha 1 gives {}", sp.kind(), a, hex(v[k]), k as i32 % self.w, k as i32 / self.w, hex(v1[k])));
                                break;
                            }
                        }
                    }
                }
                // C18: what a source built from valid inputs shades must be a valid premultiplied colour
                if let Some(v) = src_v.as_ref() {
                    self.st.add("source_px_premul_asserted", v.len() as u64);
                    if let Some(k) = v.iter().position(|p| !valid_premul(*p)) {
                        self.viol("C18", format!("the source of {} shades pixel ({},{}) as {} (a colour channel exceeds alpha)", op.name(), k as i32 % self.w, k as i32 / self.w, hex(v[k])));
                    }
                }
                let name = op.name();
                if nl > 0 {
                    let (lb, lrect) = &before.1[nl - 1];
                    let (la, _) = &after.1[nl - 1];
                    self.layer_dest = true;
                    match srcf.as_ref() {
                        Some(f) => self.check_dest(name, lb, la, *lrect, &cov, Some(f), model.mode, model.hull, model.noop),
                        None => self.check_dest(name, lb, la, *lrect, &cov, None, model.mode, model.hull, model.noop),
                    }
                    self.layer_dest = false;
                    if after.0 != before.0 {
                        self.viol("C06", format!("{} inside a layer changed the surface", name));
                    }
                    for i in 0..nl - 1 {
                        if after.1[i] != before.1[i] {
                            self.viol("C06", format!("{} changed a layer other than the innermost", name));
                        }
                    }
                    self.st.add("draws_inside_layers", 1);
                } else {
                    let b = IntRect::new(IntPoint::new(0, 0), IntPoint::new(self.w, self.h));
                    match srcf.as_ref() {
                        Some(f) => self.check_dest(name, &before.0, &after.0, b, &cov, Some(f), model.mode, model.hull, model.noop),
                        None => self.check_dest(name, &before.0, &after.0, b, &cov, None, model.mode, model.hull, model.noop),
                    }
                    // C05: under rectangular clips the result inside the clip equals the unclipped drawing exactly
                    if self.opts.unclipped_twin && !self.clips.is_empty() && self.clips.iter().all(|c| matches!(c, ClipEntry::Rect(..))) && !matches!(op, Op::Clear(_)) {
                        let mut t = DrawTarget::from_vec(self.w, self.h, before.0.clone());
                        t.set_transform(&self.ctm);
                        op.apply(&mut t);
                        let un = t.get_data();
                        if let Some(r) = self.model_rect() {
                            'outer: for y in r.1..r.3 {
                                for x in r.0..r.2 {
                                    let i = (y * self.w + x) as usize;
                                    if un[i] != after.0[i] {
                                        self.viol("C05", format!("{} under rectangular clips gives {} at ({},{}) but {} without any clip", name, hex(after.0[i]), x, y, hex(un[i])));
                                        break 'outer;
                                    }
                                }
                            }
                            self.st.add("rect_clip_unclipped_twins", 1);
                        }
                    }
                }
                self.st.add(&format!("op:{}", name), 1);
            }
        }
        // C18 by induction: the scene starts from valid pixels and draws valid sources only, so every pixel
        // of every buffer must be valid after every call (layers included, whatever they are filled with)
        if !self.tainted {
            let snap = self.snapshot();
            let mut bad: Option<String> = None;
            if let Some(k) = snap.0.iter().position(|p| !valid_premul(*p)) {
                bad = Some(format!("surface pixel ({},{}) = {}", k as i32 % self.w.max(1), k as i32 / self.w.max(1), hex(snap.0[k])));
            }
            for (li, (buf, _)) in snap.1.iter().enumerate() {
                if let Some(k) = buf.iter().position(|p| !valid_premul(*p)) {
                    bad = Some(format!("pixel #{} of the layer at depth {} = {}", k, li, hex(buf[k])));
                }
            }
            self.st.add("buffers_scanned_for_premultiplied_validity", 1 + snap.1.len() as u64);
            if let Some(b) = bad {
                if !self.out.violations.iter().any(|v| v.tag == "C18") {
                    self.viol("C18", format!("after {}: {} is not a valid premultiplied pixel", op.name(), b));
                }
                self.tainted = true;
            }
        }
        self.op_index += 1;
    }

    pub fn run(&mut self, scene: &Scene) {
        for op in &scene.ops {
            self.step(op);
            if self.out.violations.len() >= 6 {
                break;
            }
        }
    }
}

pub fn bitwise_eq(a: &Transform, b: &Transform) -> bool {
    a.m11.to_bits() == b.m11.to_bits() && a.m12.to_bits() == b.m12.to_bits() && a.m21.to_bits() == b.m21.to_bits() && a.m22.to_bits() == b.m22.to_bits() && a.m31.to_bits() == b.m31.to_bits() && a.m32.to_bits() == b.m32.to_bits()
}

// ---------------------------------------------------------------------------------------------
// scene generator

#[derive(Clone, Copy)]
pub struct SceneProfile {
    pub max_size: i32,
    pub clips: f64,
    pub layers: f64,
    pub transforms: f64,
    pub solid_weight: u64,
    pub ops: (u64, u64),
}

impl SceneProfile {
    pub fn general() -> SceneProfile {
        SceneProfile { max_size: 12, clips: 0.5, layers: 0.4, transforms: 0.4, solid_weight: 6, ops: (3, 10) }
    }
}

fn gen_draw(rng: &mut crate::prng::Rng, w: i32, h: i32, prof: &SceneProfile, singular_ctm: bool) -> Op {
    let src = random_source(rng, w, h, prof.solid_weight);
    let o = DrawOptions { blend_mode: random_mode(rng), alpha: random_alpha(rng), antialias: if rng.chance(0.75) { AntialiasMode::Gray } else { AntialiasMode::None } };
    let k = rng.below(if singular_ctm { 9 } else { 12 });
    // text now and then (never under a singular transform: font-kit is asked for glyph bounds under it)
    if !singular_ctm && crate::text::available() > 0 && rng.chance(0.06) {
        return Op::Text(random_text(rng, w, h), src, o);
    }
    match k {
        0..=3 => {
            let p = if rng.chance(0.6) { small_shape(rng, w, h) } else { { let c = rng.chance(0.3); random_path(rng, w, h, c) } };
            Op::Fill(p, src, o)
        }
        4 | 5 => {
            let p = if rng.chance(0.5) { small_shape(rng, w, h) } else { { let c = rng.chance(0.3); random_path(rng, w, h, c) } };
            Op::Stroke(p, src, random_style(rng, 4.), o)
        }
        6 | 7 => {
            if rng.chance(0.15) {
                // exactly the surface, or more than it
                let g = rng.int(0, 3) as f32;
                Op::FillRect(-g, -g, w as f32 + 2. * g, h as f32 + 2. * g, src, o)
            } else if rng.chance(0.6) {
                Op::FillRect(rng.int(-2, w as i64) as f32, rng.int(-2, h as i64) as f32, rng.int(-2, w as i64 + 2) as f32, rng.int(-2, h as i64 + 2) as f32, src, o)
            } else {
                Op::FillRect(rng.range(-2., w as f64) as f32, rng.range(-2., h as f64) as f32, rng.range(0.2, w as f64 + 2.) as f32, rng.range(0.2, h as f64 + 2.) as f32, src, o)
            }
        }
        8 => Op::Clear(premul_pixel(rng)),
        9 => {
            let mw = rng.int(1, w as i64 + 2) as i32;
            let mh = rng.int(1, h as i64 + 2) as i32;
            let data: Vec<u8> = (0..(mw * mh) as usize).map(|_| rng.byte_biased()).collect();
            Op::Mask(src, rng.int(-(mw as i64), w as i64) as i32, rng.int(-(mh as i64), h as i64) as i32, mw, mh, data)
        }
        10 if rng.chance(0.12) && w * h <= 600 => {
            // an image exactly as large as the surface, at the origin or next to it
            let img = Img { w, h, data: random_image_data(rng, w, h) };
            Op::DrawImageAt(if rng.chance(0.7) { 0. } else { rng.int(-1, 1) as f32 }, 0., img, o)
        }
        10 => {
            let iw = rng.int(1, 5) as i32;
            let ih = rng.int(1, 5) as i32;
            let img = Img { w: iw, h: ih, data: random_image_data(rng, iw, ih) };
            let (x, y) = if rng.chance(0.6) { (rng.int(-3, w as i64) as f32, rng.int(-3, h as i64) as f32) } else { (rng.range(-3., w as f64) as f32, rng.range(-3., h as f64) as f32) };
            Op::DrawImageAt(x, y, img, o)
        }
        _ => {
            let iw = rng.int(1, 5) as i32;
            let ih = rng.int(1, 5) as i32;
            let img = Img { w: iw, h: ih, data: random_image_data(rng, iw, ih) };
            Op::DrawImageWithSizeAt(rng.range(0.5, w as f64 + 2.) as f32, rng.range(0.5, h as f64 + 2.) as f32, rng.range(-2., w as f64) as f32, rng.range(-2., h as f64) as f32, img, o)
        }
    }
}

fn gen_clip(rng: &mut crate::prng::Rng, w: i32, h: i32) -> Op {
    if rng.chance(0.55) {
        let (x0, y0) = (rng.int(-3, w as i64) as i32, rng.int(-3, h as i64) as i32);
        match rng.below(8) {
            0 => Op::PushClipRect(x0, y0, x0 - rng.int(0, 3) as i32, y0 + 2),               // inverted / empty
            1 => {
                if rng.chance(0.3) {
                    // wider and taller than any i32 difference can express
                    Op::PushClipRect(-2_000_000_000, -2_000_000_000, 2_000_000_000, 2_000_000_000)
                } else {
                    Op::PushClipRect(-100, -100, 100 + w, 100 + h) // oversized
                }
            }
            2 => Op::PushClipRect(w + 2, 0, w + 6, h),                                       // off-surface
            _ => Op::PushClipRect(x0, y0, x0 + rng.int(1, w as i64 + 3) as i32, y0 + rng.int(1, h as i64 + 3) as i32),
        }
    } else {
        let p = match rng.below(5) {
            // a path with no ops at all encloses nothing: everything is clipped away
            0 if rng.chance(0.15) => Path { ops: Vec::new(), winding: Winding::NonZero },
            0 => rect_path(0., 0., w as f32, h as f32), // fully covering path
            1 => small_shape(rng, w, h),
            4 if w >= 4 && h >= 4 && rng.chance(0.4) => {
                // four whole-number corners, three axis-aligned sides and a slanted one (a right trapezoid), from
                // any corner in either direction: almost a rectangle
                let (x0, y0) = (rng.int(0, (w as i64 - 3).max(0)) as f32, rng.int(0, (h as i64 - 3).max(0)) as f32);
                let (x1, y1) = (x0 + rng.int(2, w as i64) as f32, y0 + rng.int(2, h as i64) as f32);
                let cut = rng.int(1, (x1 - x0) as i64 - 1).max(1) as f32;
                let mut c = vec![(x0, y0), (x1, y0), (x1, y1), (x0 + cut, y1)];
                if rng.chance(0.5) {
                    c = c.iter().map(|p| (p.1 - y0 + x0, p.0 - x0 + y0)).collect();
                }
                let k = rng.below(4) as usize;
                c.rotate_left(k);
                if rng.chance(0.5) {
                    c.reverse();
                }
                let mut pb = PathBuilder::new();
                pb.move_to(c[0].0, c[0].1);
                for p in &c[1..] {
                    pb.line_to(p.0, p.1);
                }
                pb.close();
                pb.finish()
            }
            4 => {
                // an integer rectangle path, also spanned "backwards" (negative width or height)
                let (x, y) = (rng.int(0, w as i64) as f32, rng.int(0, h as i64) as f32);
                rect_path(x, y, rng.int(-(w as i64), w as i64) as f32, rng.int(-(h as i64), h as i64) as f32)
            }
            _ => { let c = rng.chance(0.3); random_path(rng, w, h, c) },
        };
        Op::PushClip(p)
    }
}

/// well-nested random scene
pub fn gen_scene(rng: &mut crate::prng::Rng, prof: &SceneProfile) -> Scene {
    let mut w = rng.int(1, prof.max_size as i64) as i32;
    let mut h = rng.int(1, prof.max_size as i64) as i32;
    // now and then a long and flat or tall and narrow surface (spans longer than any chunk size)
    match rng.below(16) {
        0 => {
            w = rng.int(33, 90) as i32;
            h = rng.int(1, 3) as i32;
        }
        2 if rng.chance(0.012) => {
            // wider than any plausible chunk size
            w = rng.int(1025, 2100) as i32;
            h = rng.int(1, 2) as i32;
        }
        3 if rng.chance(0.008) => {
            // more than 65536 pixels
            w = rng.int(257, 400) as i32;
            h = rng.int(257, 330) as i32;
        }
        1 => {
            h = rng.int(33, 70) as i32;
            w = rng.int(1, 3) as i32;
        }
        _ => {}
    }
    let n = (w * h) as usize;
    let init = match rng.below(5) {
        0 => patchwork(rng, w as usize, h as usize),
        1 => vec![0; n],
        _ => canary(rng, n),
    };
    let nops = rng.int(prof.ops.0 as i64, prof.ops.1 as i64) as usize;
    let mut ops = Vec::new();
    // stack of open scopes: 'c' clip, 'l' layer
    let mut open: Vec<char> = Vec::new();
    let mut singular = false;
    while ops.len() < nops {
        let r = rng.f64();
        if r < prof.clips * 0.25 && open.len() < 5 {
            let c = gen_clip(rng, w, h);
            // a clip path pushed while the transform is singular (its image has no area: it clips everything), and an
            // ordinary transform again right after it, so that what follows is drawn - or not - through that clip
            if matches!(c, Op::PushClip(_)) && rng.chance(0.06) {
                ops.push(Op::SetTransform(*rng.pick(&[Transform::scale(0., 0.), Transform::new(1., 2., 2., 4., 1., 1.), Transform::scale(1., 0.), Transform::scale(0., 1.)])));
                ops.push(c);
                let t = if rng.chance(0.5) { Transform::identity() } else { random_transform(rng, w as f64, h as f64) };
                singular = t.inverse().is_none();
                ops.push(Op::SetTransform(t));
            } else {
                ops.push(c);
            }
            open.push('c');
        } else if r < prof.clips * 0.25 + prof.layers * 0.2 && open.iter().filter(|c| **c == 'l').count() < 3 {
            let opacity = *rng.pick(&[0.0f32, 1. / 255., 0.3, 0.5, 1.0, 1.0, 1.5, -0.5, f32::NAN, 0.75]);
            ops.push(Op::PushLayer(opacity, random_mode(rng)));
            open.push('l');
        } else if r < 0.35 + prof.transforms * 0.15 && r >= 0.35 {
            let t = if rng.chance(0.08) {
                *rng.pick(&[Transform::scale(0., 0.), Transform::new(1., 2., 2., 4., 1., 1.), Transform::scale(1., 0.)])
            } else {
                random_transform(rng, w as f64, h as f64)
            };
            singular = t.inverse().is_none();
            ops.push(Op::SetTransform(t));
        } else if r < 0.5 && !open.is_empty() && rng.chance(0.5) {
            // pops need not nest with layers: a clip pushed before a layer may be popped while the layer is open
            let top = *open.last().unwrap();
            let cross = top == 'l' && open.contains(&'c') && rng.chance(0.25);
            if cross {
                let k = open.iter().rposition(|c| *c == 'c').unwrap();
                open.remove(k);
                ops.push(Op::PopClip);
                // ... and a clip rectangle of the same size somewhere else may follow, then a clear
                if let Some(Op::PushClipRect(x0, y0, x1, y1)) = ops.iter().rev().find(|o| matches!(o, Op::PushClipRect(..))).cloned() {
                    if rng.chance(0.5) {
                        let (dx, dy) = (rng.int(-3, 3) as i32, rng.int(-3, 3) as i32);
                        ops.push(Op::PushClipRect(x0 + dx, y0 + dy, x1 + dx, y1 + dy));
                        open.push('c');
                        ops.push(Op::Clear(premul_pixel(rng)));
                    }
                }
            } else {
                match open.pop().unwrap() {
                    'c' => ops.push(Op::PopClip),
                    _ => ops.push(Op::PopLayer),
                }
            }
        } else if rng.chance(0.07) && ops.last().map(|o| o.is_draw()).unwrap_or(false) {
            // the same call again, bit for bit (a translucent colour over itself, a source over its own result) - or
            // with the same source and options and the shape moved or grown a little (a second coat that reaches
            // beyond the first: a pixel's old value may then equal its neighbour's new one)
            let again = ops[ops.len() - 1].clone();
            let (dx, dy) = (rng.int(-2, 2) as f32, rng.int(-1, 1) as f32);
            let again = if rng.chance(0.5) {
                again
            } else {
                match again {
                    Op::Fill(p, s, o) => Op::Fill(p.transform(&Transform::translation(dx, dy)), s, o),
                    Op::Stroke(p, s, st, o) => Op::Stroke(p.transform(&Transform::translation(dx, dy)), s, st, o),
                    Op::FillRect(x, y, rw, rh, s, o) => Op::FillRect(x - dx.abs(), y, rw + 2. * dx.abs(), rh + dy.abs(), s, o),
                    other => other,
                }
            };
            ops.push(again);
        } else {
            ops.push(gen_draw(rng, w, h, prof, singular));
        }
    }
    while let Some(c) = open.pop() {
        // a last draw before closing makes the scope matter
        if rng.chance(0.3) {
            ops.push(gen_draw(rng, w, h, prof, singular));
        }
        ops.push(if c == 'c' { Op::PopClip } else { Op::PopLayer });
    }
    // one scene in twelve runs with the real target's user space magnified by a power of two (see Monitor::step)
    if w <= 90 && h <= 90 && rng.chance(0.085) {
        let e = *rng.pick(&[-14i32, -13, -12, -11, -10, -9, -8, -5, 5, 8, 9, 10, 11, 12]);
        let fix = |s: &SrcSpec| scale_invariant_source(s);
        let mut scaled: Vec<Op> = vec![Op::UserScale(e)];
        for op in ops {
            scaled.push(match op {
                Op::Fill(p, s, o) => Op::Fill(p, fix(&s), o),
                Op::Stroke(p, s, st, o) => Op::Stroke(p, fix(&s), st, o),
                Op::FillRect(x, y, rw, rh, s, o) => Op::FillRect(x, y, rw, rh, fix(&s), o),
                Op::Mask(s, x, y, mw, mh, d) => Op::Mask(fix(&s), x, y, mw, mh, d),
                // glyphs have no exact twin (hinting-free outlines are scaled by font-kit in its own arithmetic)
                Op::Text(t, s, o) => Op::FillRect(t.x, t.y, t.size, t.size * 0.5, fix(&s), o),
                other => other,
            });
        }
        ops = scaled;
    }
    Scene { w, h, init, ops }
}

pub fn hash_scene(s: &Scene) -> u64 {
    crate::prng::hash_str(&format!("{:?}{:?}{:?}", (s.w, s.h), s.init, s.ops))
}

/// runs a scene under the monitor and fills in the case outcome
pub fn run_scene(scene: &Scene, st: &mut Stats, known: &Known, opts: MonitorOpts, want_desc: bool) -> CaseOut {
    let mut out = CaseOut::default();
    out.hash = hash_scene(scene);
    // a panic inside any call of the scene is a violation of whichever property is being checked
    // (every generator stays inside the no-panic domain); tag "*" means "the running property"
    let res = guarded(|| {
        let mut m = Monitor::new(scene, st, &mut out, known, opts);
        m.run(scene);
        (m.changed_px, m.unchanged_px, m.op_index)
    });
    match res {
        Ok((changed, unchanged, _)) => out.nontrivial = changed > 0 && unchanged > 0,
        Err(p) => {
            let (i, name) = CURRENT_OP.with(|c| c.get());
            out.viol("*", format!("panic while monitoring op #{} ({}): {}", i, name, p))
        }
    }
    if want_desc || !out.violations.is_empty() {
        out.desc = Some(scene.desc());
    }
    out
}
