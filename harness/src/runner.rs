//! Case runner: runs the cases of a sub-workload on all cores, under catch_unwind, and
//! aggregates what the monitors observed.

use crate::json::J;
use crate::prng::Rng;
use std::cell::RefCell;
use std::collections::{BTreeMap, HashSet};
use std::panic::{catch_unwind, AssertUnwindSafe};
use std::sync::atomic::{AtomicBool, AtomicU64, Ordering};
use std::sync::Mutex;
use std::time::{Duration, Instant};

#[derive(Clone, Copy, PartialEq, Debug)]
pub enum Tier {
    Quick,
    Thorough,
}

#[derive(Clone, Debug)]
pub struct Replay {
    pub sub: String,
    pub index: u64,
}

pub struct Ctx {
    pub prop: String,
    pub tier: Tier,
    pub seed: u64,
    pub threads: usize,
    pub replay: Option<Replay>,
    pub known: crate::known::Known,
    /// reduced mode for slow interpreters/sanitizers: workloads shrink by this divisor
    pub scale_div: u64,
    /// under Miri float intrinsics are perturbed: bit-exact pixel oracles are disarmed
    pub miri: bool,
    /// restrict to one sub-workload (used by the sanitizer shards)
    pub only_sub: Option<String>,
    pub shard: (u64, u64),
    pub start: Instant,
}

impl Ctx {
    pub fn rng(&self, sub: &str, index: u64) -> Rng {
        Rng::new(self.seed, &format!("{}/{}", self.prop, sub), index)
    }
    pub fn quick(&self) -> bool {
        self.tier == Tier::Quick
    }
    /// number of cases for the tier, scaled down in reduced mode
    pub fn n(&self, quick: u64, thorough: u64) -> u64 {
        let n = if self.quick() { quick } else { thorough };
        (n / self.scale_div).max(1)
    }
}

#[derive(Default, Clone)]
pub struct Stats {
    pub counters: BTreeMap<String, u64>,
    pub maxima: BTreeMap<String, f64>,
}

impl Stats {
    pub fn add(&mut self, k: &str, n: u64) {
        if let Some(v) = self.counters.get_mut(k) {
            *v += n;
        } else {
            self.counters.insert(k.to_string(), n);
        }
    }
    pub fn max(&mut self, k: &str, v: f64) {
        if let Some(m) = self.maxima.get_mut(k) {
            if v > *m {
                *m = v;
            }
        } else {
            self.maxima.insert(k.to_string(), v);
        }
    }
    pub fn get(&self, k: &str) -> u64 {
        self.counters.get(k).copied().unwrap_or(0)
    }
    pub fn merge(&mut self, o: &Stats) {
        for (k, v) in &o.counters {
            self.add(k, *v);
        }
        for (k, v) in &o.maxima {
            self.max(k, *v);
        }
    }
}

#[derive(Clone, Debug)]
pub struct Viol {
    /// the property whose monitor fired
    pub tag: String,
    pub what: String,
}

#[derive(Default)]
pub struct CaseOut {
    /// identity of the case, for counting distinct cases
    pub hash: u64,
    /// the case asserted something on both sides of the property (see each check's rule)
    pub nontrivial: bool,
    pub violations: Vec<Viol>,
    /// (signature id, what) of known findings this case ran into; a signature id is
    /// "<property>:<name>" and only the running property's own findings are reported
    pub known: Vec<(String, String)>,
    /// the case written out (only when asked for)
    pub desc: Option<J>,
}

impl CaseOut {
    pub fn viol(&mut self, tag: &str, what: String) {
        if self.violations.len() < 8 {
            self.violations.push(Viol { tag: tag.to_string(), what });
        }
    }
}

#[derive(Clone, Debug)]
pub struct Violation {
    pub sub: String,
    pub index: u64,
    pub what: String,
    pub desc: J,
}

pub struct Outcome {
    pub evaluations: u64,
    pub nontrivial: u64,
    distinct: HashSet<u64>,
    distinct_extra: u64,
    pub samples: Vec<J>,
    pub violations: Vec<Violation>,
    pub violation_count: u64,
    pub known_hits: BTreeMap<String, (u64, String)>,
    pub cross_signals: BTreeMap<String, (u64, String)>,
    pub stats: Stats,
    pub subs: Vec<J>,
    pub inconclusive: Vec<String>,
    pub exhaustive_subs: Vec<String>,
    pub rule: String,
    pub assumptions: Vec<String>,
    pub extra: Vec<(String, J)>,
}

impl Outcome {
    pub fn new(rule: &str) -> Outcome {
        Outcome {
            evaluations: 0,
            nontrivial: 0,
            distinct: HashSet::new(),
            distinct_extra: 0,
            samples: Vec::new(),
            violations: Vec::new(),
            violation_count: 0,
            known_hits: BTreeMap::new(),
            cross_signals: BTreeMap::new(),
            stats: Stats::default(),
            subs: Vec::new(),
            inconclusive: Vec::new(),
            exhaustive_subs: Vec::new(),
            rule: rule.to_string(),
            assumptions: Vec::new(),
            extra: Vec::new(),
        }
    }
    pub fn distinct_nontrivial(&self) -> u64 {
        self.distinct.len() as u64 + self.distinct_extra
    }
    pub fn add_distinct(&mut self, n: u64) {
        self.distinct_extra += n;
    }
    pub fn assume(&mut self, s: &str) {
        self.assumptions.push(s.to_string());
    }
    pub fn inconclusive(&mut self, s: String) {
        self.inconclusive.push(s);
    }
}

thread_local! {
    static LAST_PANIC: RefCell<Option<String>> = RefCell::new(None);
}

pub fn install_panic_hook() {
    std::panic::set_hook(Box::new(|info| {
        let msg = if let Some(s) = info.payload().downcast_ref::<&str>() {
            s.to_string()
        } else if let Some(s) = info.payload().downcast_ref::<String>() {
            s.clone()
        } else {
            "<non-string panic payload>".to_string()
        };
        let loc = info.location().map(|l| format!("{}:{}", l.file(), l.line())).unwrap_or_default();
        LAST_PANIC.with(|p| *p.borrow_mut() = Some(format!("{} at {}", msg, loc)));
    }));
}

pub fn take_panic() -> String {
    LAST_PANIC.with(|p| p.borrow_mut().take()).unwrap_or_else(|| "<unknown panic>".to_string())
}

/// Runs `f` and turns a panic into `Err(message at location)`.
pub fn guarded<T>(f: impl FnOnce() -> T) -> Result<T, String> {
    match catch_unwind(AssertUnwindSafe(f)) {
        Ok(v) => Ok(v),
        Err(_) => Err(take_panic()),
    }
}

pub struct SubSpec<'a> {
    pub name: &'a str,
    pub cases: u64,
    /// the cases enumerate a finite space completely and are distinct by construction
    pub exhaustive: bool,
    /// stop handing out cases after this many seconds (what ran is what is reported)
    pub max_secs: f64,
}

/// `f(index, want_desc, stats) -> CaseOut`. A panic that escapes `f` is a violation of the
/// property under check (every generator stays inside the no-panic domain).
pub fn run_cases<F>(ctx: &Ctx, out: &mut Outcome, spec: SubSpec, f: F)
where
    F: Fn(u64, bool, &mut Stats) -> CaseOut + Sync,
{
    if let Some(only) = &ctx.only_sub {
        if only != spec.name {
            return;
        }
    }
    let t0 = Instant::now();
    if let Some(r) = &ctx.replay {
        if r.sub != spec.name {
            return;
        }
        let mut st = Stats::default();
        let res = guarded(|| f(r.index, true, &mut st));
        out.evaluations += 1;
        match res {
            Ok(co) => {
                println!("replay {}/{} #{}: case = {}", ctx.prop, spec.name, r.index, co.desc.clone().unwrap_or(J::Null).to_string_pretty());
                for v in &co.violations {
                    println!("  monitor {} fired: {}", v.tag, v.what);
                    if v.tag == ctx.prop || v.tag == "*" {
                        out.violation_count += 1;
                        out.violations.push(Violation { sub: spec.name.to_string(), index: r.index, what: v.what.clone(), desc: co.desc.clone().unwrap_or(J::Null) });
                    }
                }
                for k in &co.known {
                    println!("  known finding {}: {}", k.0, k.1);
                    if let Some(sig) = k.0.strip_prefix(&format!("{}:", ctx.prop)) {
                        let e = out.known_hits.entry(sig.to_string()).or_insert((0, k.1.clone()));
                        e.0 += 1;
                    }
                }
                if co.violations.is_empty() {
                    println!("  no monitor fired");
                }
                if co.nontrivial {
                    out.nontrivial += 1;
                    out.distinct.insert(co.hash);
                }
                if let Some(d) = co.desc {
                    out.samples.push(d);
                }
            }
            Err(p) => {
                println!("replay {}/{} #{}: panic: {}", ctx.prop, spec.name, r.index, p);
                out.violation_count += 1;
                out.violations.push(Violation { sub: spec.name.to_string(), index: r.index, what: format!("panic: {}", p), desc: J::Null });
            }
        }
        out.stats.merge(&st);
        return;
    }

    let next = AtomicU64::new(ctx.shard.0);
    let stride = ctx.shard.1.max(1);
    let stop = AtomicBool::new(false);
    struct Shared {
        evaluations: u64,
        nontrivial: u64,
        distinct: HashSet<u64>,
        samples: Vec<(u64, J)>,
        violations: Vec<Violation>,
        violation_count: u64,
        known: BTreeMap<String, (u64, String)>,
        cross: BTreeMap<String, (u64, String)>,
        stats: Stats,
    }
    let shared = Mutex::new(Shared {
        evaluations: 0,
        nontrivial: 0,
        distinct: HashSet::new(),
        samples: Vec::new(),
        violations: Vec::new(),
        violation_count: 0,
        known: BTreeMap::new(),
        cross: BTreeMap::new(),
        stats: Stats::default(),
    });
    let max_d = Duration::from_secs_f64(spec.max_secs);
    let threads = ctx.threads.max(1);
    let n_cases = spec.cases;
    let chunk: u64 = if n_cases / (threads as u64) > 4096 { 256 } else if n_cases / (threads as u64) > 64 { 8 } else { 1 };
    let exhaustive = spec.exhaustive;
    std::thread::scope(|s| {
        for _ in 0..threads {
            s.spawn(|| {
                let mut st = Stats::default();
                let mut evals = 0u64;
                let mut nontriv = 0u64;
                let mut distinct: HashSet<u64> = HashSet::new();
                let mut samples: Vec<(u64, J)> = Vec::new();
                let mut viols: Vec<Violation> = Vec::new();
                let mut viol_count = 0u64;
                let mut known: BTreeMap<String, (u64, String)> = BTreeMap::new();
                let mut cross: BTreeMap<String, (u64, String)> = BTreeMap::new();
                'outer: loop {
                    if stop.load(Ordering::Relaxed) {
                        break;
                    }
                    let base = next.fetch_add(chunk * stride, Ordering::Relaxed);
                    for j in 0..chunk {
                        let idx = base + j * stride;
                        if idx >= n_cases {
                            break 'outer;
                        }
                        let want = idx < 3;
                        let res = guarded(|| f(idx, want, &mut st));
                        evals += 1;
                        let co = match res {
                            Ok(co) => co,
                            Err(p) => {
                                let mut co = CaseOut::default();
                                co.hash = idx;
                                co.violations.push(Viol { tag: ctx.prop.clone(), what: format!("panic: {}", p) });
                                co
                            }
                        };
                        if co.nontrivial {
                            nontriv += 1;
                            if !exhaustive && distinct.len() < 4_000_000 {
                                distinct.insert(co.hash);
                            }
                        }
                        if want {
                            if let Some(d) = &co.desc {
                                samples.push((idx, d.clone()));
                            }
                        }
                        for k in co.known {
                            if let Some(sig) = k.0.strip_prefix(&format!("{}:", ctx.prop)) {
                                let e = known.entry(sig.to_string()).or_insert((0, k.1));
                                e.0 += 1;
                            }
                        }
                        for v in &co.violations {
                            if v.tag == ctx.prop || v.tag == "*" {
                                viol_count += 1;
                                if viols.len() < 5 {
                                    // run the case again to get it written out for the replay file
                                    let desc = if co.desc.is_some() {
                                        co.desc.clone().unwrap()
                                    } else {
                                        let mut st2 = Stats::default();
                                        guarded(|| f(idx, true, &mut st2)).ok().and_then(|c| c.desc).unwrap_or(J::Null)
                                    };
                                    viols.push(Violation { sub: spec.name.to_string(), index: idx, what: v.what.clone(), desc });
                                }
                            } else {
                                let e = cross.entry(v.tag.clone()).or_insert((0, format!("{}#{}: {}", spec.name, idx, v.what)));
                                e.0 += 1;
                            }
                        }
                    }
                    if t0.elapsed() > max_d {
                        stop.store(true, Ordering::Relaxed);
                    }
                }
                let mut sh = shared.lock().unwrap();
                sh.evaluations += evals;
                sh.nontrivial += nontriv;
                sh.distinct.extend(distinct);
                sh.samples.extend(samples);
                sh.violations.extend(viols);
                sh.violation_count += viol_count;
                for (k, v) in known {
                    let e = sh.known.entry(k).or_insert((0, v.1));
                    e.0 += v.0;
                }
                for (k, v) in cross {
                    let e = sh.cross.entry(k).or_insert((0, v.1));
                    e.0 += v.0;
                }
                sh.stats.merge(&st);
            });
        }
    });
    let mut sh = shared.into_inner().unwrap();
    let stopped_early = stop.load(Ordering::Relaxed) && sh.evaluations < (n_cases.saturating_sub(ctx.shard.0) + stride - 1) / stride;
    let mut sub = J::obj();
    sub.set("name", J::s(spec.name));
    sub.set("cases_planned", J::Int(n_cases as i64));
    sub.set("cases_run", J::Int(sh.evaluations as i64));
    sub.set("nontrivial", J::Int(sh.nontrivial as i64));
    sub.set("exhaustive", J::Bool(exhaustive && !stopped_early && ctx.shard.1 <= 1));
    sub.set("stopped_early_by_time_cap", J::Bool(stopped_early));
    sub.set("wall_s", J::Num((t0.elapsed().as_secs_f64() * 100.0).round() / 100.0));
    sub.set("violations", J::Int(sh.violation_count as i64));
    out.subs.push(sub);
    if exhaustive && !stopped_early && ctx.shard.1 <= 1 {
        out.exhaustive_subs.push(spec.name.to_string());
    }
    out.evaluations += sh.evaluations;
    out.nontrivial += sh.nontrivial;
    if exhaustive {
        out.distinct_extra += sh.nontrivial;
    } else {
        // hashes are per sub-workload: keep different subs apart
        let salt = crate::prng::hash_str(spec.name);
        for h in sh.distinct.drain() {
            out.distinct.insert(h ^ salt);
        }
    }
    sh.samples.sort_by_key(|s| s.0);
    for (_, d) in sh.samples.into_iter().take(2) {
        if out.samples.len() < 12 {
            out.samples.push(d);
        }
    }
    sh.violations.sort_by_key(|v| v.index);
    out.violation_count += sh.violation_count;
    for v in sh.violations {
        if out.violations.len() < 8 {
            out.violations.push(v);
        }
    }
    for (k, v) in sh.known {
        let e = out.known_hits.entry(k).or_insert((0, v.1));
        e.0 += v.0;
    }
    for (k, v) in sh.cross {
        let e = out.cross_signals.entry(k).or_insert((0, v.1));
        e.0 += v.0;
    }
    out.stats.merge(&sh.stats);
}
