//! The public DrawTarget operations as data: generated, applied, written out.

use crate::gen::*;
use crate::json::J;
use crate::util::*;
use raqote::*;

#[derive(Clone, Debug)]
pub struct Img {
    pub w: i32,
    pub h: i32,
    pub data: Vec<u32>,
}

#[derive(Clone, Debug)]
pub enum Op {
    SetTransform(Transform),
    /// min x, min y, max x, max y
    PushClipRect(i32, i32, i32, i32),
    PushClip(Path),
    PopClip,
    PushLayer(f32, BlendMode),
    PopLayer,
    Fill(Path, SrcSpec, DrawOptions),
    Stroke(Path, SrcSpec, StrokeStyle, DrawOptions),
    FillRect(f32, f32, f32, f32, SrcSpec, DrawOptions),
    Clear(u32),
    /// source, x, y, mask width, mask height, mask data
    Mask(SrcSpec, i32, i32, i32, i32, Vec<u8>),
    DrawImageAt(f32, f32, Img, DrawOptions),
    /// width, height, x, y
    DrawImageWithSizeAt(f32, f32, f32, f32, Img, DrawOptions),
}

impl Op {
    pub fn is_draw(&self) -> bool {
        !matches!(self, Op::SetTransform(_) | Op::PushClipRect(..) | Op::PushClip(_) | Op::PopClip | Op::PushLayer(..) | Op::PopLayer)
    }

    pub fn name(&self) -> &'static str {
        match self {
            Op::SetTransform(_) => "set_transform",
            Op::PushClipRect(..) => "push_clip_rect",
            Op::PushClip(_) => "push_clip",
            Op::PopClip => "pop_clip",
            Op::PushLayer(..) => "push_layer_with_blend",
            Op::PopLayer => "pop_layer",
            Op::Fill(..) => "fill",
            Op::Stroke(..) => "stroke",
            Op::FillRect(..) => "fill_rect",
            Op::Clear(_) => "clear",
            Op::Mask(..) => "mask",
            Op::DrawImageAt(..) => "draw_image_at",
            Op::DrawImageWithSizeAt(..) => "draw_image_with_size_at",
        }
    }

    pub fn apply(&self, dt: &mut DrawTarget) {
        match self {
            Op::SetTransform(t) => dt.set_transform(t),
            Op::PushClipRect(x0, y0, x1, y1) => dt.push_clip_rect(IntRect::new(IntPoint::new(*x0, *y0), IntPoint::new(*x1, *y1))),
            Op::PushClip(p) => dt.push_clip(p),
            Op::PopClip => dt.pop_clip(),
            Op::PushLayer(o, m) => dt.push_layer_with_blend(*o, *m),
            Op::PopLayer => dt.pop_layer(),
            Op::Fill(p, s, o) => s.with(|src| dt.fill(p, src, o)),
            Op::Stroke(p, s, st, o) => s.with(|src| dt.stroke(p, src, st, o)),
            Op::FillRect(x, y, w, h, s, o) => s.with(|src| dt.fill_rect(*x, *y, *w, *h, src, o)),
            Op::Clear(c) => dt.clear(solid(*c)),
            Op::Mask(s, x, y, mw, mh, data) => {
                let m = Mask { width: *mw, height: *mh, data: data.clone() };
                s.with(|src| dt.mask(src, *x, *y, &m))
            }
            Op::DrawImageAt(x, y, img, o) => {
                let image = Image { width: img.w, height: img.h, data: &img.data[..] };
                dt.draw_image_at(*x, *y, &image, o)
            }
            Op::DrawImageWithSizeAt(w, h, x, y, img, o) => {
                let image = Image { width: img.w, height: img.h, data: &img.data[..] };
                dt.draw_image_with_size_at(*w, *h, *x, *y, &image, o)
            }
        }
    }

    pub fn desc(&self) -> J {
        let mut o = J::obj();
        o.set("op", J::s(self.name()));
        let optj = |d: &DrawOptions| J::s(&format!("{} alpha {} {:?}", mode_name(d.blend_mode), fmt_f(d.alpha), d.antialias));
        match self {
            Op::SetTransform(t) => {
                o.set("transform", J::s(&transform_str(t)));
            }
            Op::PushClipRect(x0, y0, x1, y1) => {
                o.set("rect", J::s(&format!("({},{})-({},{})", x0, y0, x1, y1)));
            }
            Op::PushClip(p) => {
                o.set("path", J::s(&path_str(p)));
            }
            Op::PopClip | Op::PopLayer => {}
            Op::PushLayer(op, m) => {
                o.set("opacity", J::s(&fmt_f(*op)));
                o.set("blend", J::s(mode_name(*m)));
            }
            Op::Fill(p, s, d) => {
                o.set("path", J::s(&path_str(p)));
                o.set("source", s.desc());
                o.set("options", optj(d));
            }
            Op::Stroke(p, s, st, d) => {
                o.set("path", J::s(&path_str(p)));
                o.set("style", J::s(&style_str(st)));
                o.set("source", s.desc());
                o.set("options", optj(d));
            }
            Op::FillRect(x, y, w, h, s, d) => {
                o.set("rect", J::s(&format!("x {} y {} w {} h {}", fmt_f(*x), fmt_f(*y), fmt_f(*w), fmt_f(*h))));
                o.set("source", s.desc());
                o.set("options", optj(d));
            }
            Op::Clear(c) => {
                o.set("color", J::s(&hex(*c)));
            }
            Op::Mask(s, x, y, mw, mh, data) => {
                o.set("at", J::s(&format!("{},{}", x, y)));
                o.set("mask", J::s(&format!("{}x{} {:?}{}", mw, mh, &data[..data.len().min(64)], if data.len() > 64 { " ... (regenerated from the seed on replay)" } else { "" })));
                o.set("source", s.desc());
            }
            Op::DrawImageAt(x, y, img, d) => {
                o.set("at", J::s(&format!("{},{}", fmt_f(*x), fmt_f(*y))));
                o.set("image", J::s(&format!("{}x{}", img.w, img.h)));
                o.set("data", pixels_json(&img.data));
                o.set("options", optj(d));
            }
            Op::DrawImageWithSizeAt(w, h, x, y, img, d) => {
                o.set("at", J::s(&format!("{},{} size {}x{}", fmt_f(*x), fmt_f(*y), fmt_f(*w), fmt_f(*h))));
                o.set("image", J::s(&format!("{}x{}", img.w, img.h)));
                o.set("data", pixels_json(&img.data));
                o.set("options", optj(d));
            }
        }
        o
    }
}

pub fn ops_json(ops: &[Op]) -> J {
    J::Arr(ops.iter().map(|o| o.desc()).collect())
}
