//! The public DrawTarget operations as data: generated, applied, written out.

use crate::gen::*;
use crate::json::J;
use crate::util::*;
use raqote::*;

#[derive(Clone, Debug)]
pub struct Img {
    pub w: i32,
    pub h: i32,
    pub data: Vec<u32>,
}

#[derive(Clone, Debug)]
pub enum Op {
    SetTransform(Transform),
    /// min x, min y, max x, max y
    PushClipRect(i32, i32, i32, i32),
    PushClip(Path),
    PopClip,
    PushLayer(f32, BlendMode),
    PopLayer,
    Fill(Path, SrcSpec, DrawOptions),
    Stroke(Path, SrcSpec, StrokeStyle, DrawOptions),
    FillRect(f32, f32, f32, f32, SrcSpec, DrawOptions),
    Clear(u32),
    /// source, x, y, mask width, mask height, mask data
    Mask(SrcSpec, i32, i32, i32, i32, Vec<u8>),
    DrawImageAt(f32, f32, Img, DrawOptions),
    /// width, height, x, y
    DrawImageWithSizeAt(f32, f32, f32, f32, Img, DrawOptions),
    /// draw_text, or draw_glyphs with hand-placed glyphs (only generated when fonts are available)
    Text(TextSpec, SrcSpec, DrawOptions),
    /// copy_surface (kind 0), blend_surface (1, with the mode) or blend_surface_with_alpha (2, with the alpha)
    /// from a source surface holding `Img`: source rectangle (min x, min y, max x, max y), destination point.
    /// Device-space calls that ignore clip, transform and layers (histories only; the scene monitor has no model for them)
    BlitSurface(u8, Img, (i32, i32, i32, i32), (i32, i32), BlendMode, f32),
    /// not a call: from here on the scene monitor magnifies the real target's user space by 2^e (first op of
    /// a scaled scene; a no-op when applied to a plain target)
    UserScale(i32),
}

#[derive(Clone, Debug)]
pub struct TextSpec {
    pub font: usize,
    pub size: f32,
    pub text: String,
    pub x: f32,
    pub y: f32,
    pub glyphs: bool,
}

/// The same path put together through the public PathBuilder calls, one call per stored op (C20: the builder
/// records exactly what it is given). Every other path, by a hash of its coordinates, takes this route, so that
/// the drawing checks see paths the way users make them as well as hand-assembled op lists.
pub fn via_builder(p: &Path) -> Path {
    let mut pb = PathBuilder::new();
    for op in &p.ops {
        match *op {
            PathOp::MoveTo(a) => pb.move_to(a.x, a.y),
            PathOp::LineTo(a) => pb.line_to(a.x, a.y),
            PathOp::QuadTo(c, a) => pb.quad_to(c.x, c.y, a.x, a.y),
            PathOp::CubicTo(c1, c2, a) => pb.cubic_to(c1.x, c1.y, c2.x, c2.y, a.x, a.y),
            PathOp::Close => pb.close(),
        }
    }
    let mut out = pb.finish();
    out.winding = p.winding;
    out
}

pub fn maybe_via_builder(p: &Path) -> std::borrow::Cow<'_, Path> {
    let mut h: u32 = p.ops.len() as u32;
    for op in &p.ops {
        let q = match *op {
            PathOp::MoveTo(a) | PathOp::LineTo(a) | PathOp::QuadTo(_, a) | PathOp::CubicTo(_, _, a) => a,
            PathOp::Close => continue,
        };
        h = h.wrapping_mul(31).wrapping_add(q.x.to_bits() ^ q.y.to_bits().rotate_left(7));
    }
    if (h ^ (h >> 11)) & 1 == 1 {
        std::borrow::Cow::Owned(via_builder(p))
    } else {
        std::borrow::Cow::Borrowed(p)
    }
}

impl Op {
    pub fn is_draw(&self) -> bool {
        !matches!(self, Op::SetTransform(_) | Op::PushClipRect(..) | Op::PushClip(_) | Op::PopClip | Op::PushLayer(..) | Op::PopLayer | Op::UserScale(_))
    }

    pub fn name(&self) -> &'static str {
        match self {
            Op::SetTransform(_) => "set_transform",
            Op::PushClipRect(..) => "push_clip_rect",
            Op::PushClip(_) => "push_clip",
            Op::PopClip => "pop_clip",
            Op::PushLayer(..) => "push_layer_with_blend",
            Op::PopLayer => "pop_layer",
            Op::Fill(..) => "fill",
            Op::Stroke(..) => "stroke",
            Op::FillRect(..) => "fill_rect",
            Op::Clear(_) => "clear",
            Op::Mask(..) => "mask",
            Op::DrawImageAt(..) => "draw_image_at",
            Op::DrawImageWithSizeAt(..) => "draw_image_with_size_at",
            Op::UserScale(_) => "user_scale",
            Op::BlitSurface(k, ..) => match k {
                0 => "copy_surface",
                1 => "blend_surface",
                _ => "blend_surface_with_alpha",
            },
            Op::Text(t, ..) => {
                if t.glyphs {
                    "draw_glyphs"
                } else {
                    "draw_text"
                }
            }
        }
    }

    pub fn apply(&self, dt: &mut DrawTarget) {
        match self {
            Op::SetTransform(t) => dt.set_transform(t),
            Op::PushClipRect(x0, y0, x1, y1) => dt.push_clip_rect(IntRect::new(IntPoint::new(*x0, *y0), IntPoint::new(*x1, *y1))),
            Op::PushClip(p) => dt.push_clip(&maybe_via_builder(p)),
            Op::PopClip => dt.pop_clip(),
            Op::PushLayer(o, m) => dt.push_layer_with_blend(*o, *m),
            Op::PopLayer => dt.pop_layer(),
            Op::Fill(p, s, o) => s.with(|src| dt.fill(&maybe_via_builder(p), src, o)),
            Op::Stroke(p, s, st, o) => s.with(|src| dt.stroke(&maybe_via_builder(p), src, st, o)),
            Op::FillRect(x, y, w, h, s, o) => s.with(|src| dt.fill_rect(*x, *y, *w, *h, src, o)),
            Op::Clear(c) => dt.clear(solid(*c)),
            Op::Mask(s, x, y, mw, mh, data) => {
                let m = Mask { width: *mw, height: *mh, data: data.clone() };
                s.with(|src| dt.mask(src, *x, *y, &m))
            }
            Op::DrawImageAt(x, y, img, o) => {
                let image = Image { width: img.w, height: img.h, data: &img.data[..] };
                dt.draw_image_at(*x, *y, &image, o)
            }
            Op::DrawImageWithSizeAt(w, h, x, y, img, o) => {
                let image = Image { width: img.w, height: img.h, data: &img.data[..] };
                dt.draw_image_with_size_at(*w, *h, *x, *y, &image, o)
            }
            Op::Text(t, s, o) => s.with(|src| crate::text::draw(dt, t.font, t.size, &t.text, t.x, t.y, t.glyphs, src, o)),
            Op::UserScale(_) => {}
            Op::BlitSurface(k, img, r, d, mode, alpha) => {
                let src = DrawTarget::from_vec(img.w, img.h, img.data.clone());
                let rect = IntRect::new(IntPoint::new(r.0, r.1), IntPoint::new(r.2, r.3));
                let dst = IntPoint::new(d.0, d.1);
                match k {
                    0 => dt.copy_surface(&src, rect, dst),
                    1 => dt.blend_surface(&src, rect, dst, *mode),
                    _ => dt.blend_surface_with_alpha(&src, rect, dst, *alpha),
                }
            }
        }
    }

    pub fn desc(&self) -> J {
        let mut o = J::obj();
        o.set("op", J::s(self.name()));
        let optj = |d: &DrawOptions| J::s(&format!("{} alpha {} {:?}", mode_name(d.blend_mode), fmt_f(d.alpha), d.antialias));
        match self {
            Op::SetTransform(t) => {
                o.set("transform", J::s(&transform_str(t)));
            }
            Op::PushClipRect(x0, y0, x1, y1) => {
                o.set("rect", J::s(&format!("({},{})-({},{})", x0, y0, x1, y1)));
            }
            Op::PushClip(p) => {
                o.set("path", J::s(&path_str(p)));
            }
            Op::PopClip | Op::PopLayer => {}
            Op::PushLayer(op, m) => {
                o.set("opacity", J::s(&fmt_f(*op)));
                o.set("blend", J::s(mode_name(*m)));
            }
            Op::Fill(p, s, d) => {
                o.set("path", J::s(&path_str(p)));
                o.set("source", s.desc());
                o.set("options", optj(d));
            }
            Op::Stroke(p, s, st, d) => {
                o.set("path", J::s(&path_str(p)));
                o.set("style", J::s(&style_str(st)));
                o.set("source", s.desc());
                o.set("options", optj(d));
            }
            Op::FillRect(x, y, w, h, s, d) => {
                o.set("rect", J::s(&format!("x {} y {} w {} h {}", fmt_f(*x), fmt_f(*y), fmt_f(*w), fmt_f(*h))));
                o.set("source", s.desc());
                o.set("options", optj(d));
            }
            Op::Clear(c) => {
                o.set("color", J::s(&hex(*c)));
            }
            Op::Mask(s, x, y, mw, mh, data) => {
                o.set("at", J::s(&format!("{},{}", x, y)));
                o.set("mask", J::s(&format!("{}x{} {:?}{}", mw, mh, &data[..data.len().min(64)], if data.len() > 64 { " ... (regenerated from the seed on replay)" } else { "" })));
                o.set("source", s.desc());
            }
            Op::DrawImageAt(x, y, img, d) => {
                o.set("at", J::s(&format!("{},{}", fmt_f(*x), fmt_f(*y))));
                o.set("image", J::s(&format!("{}x{}", img.w, img.h)));
                o.set("data", pixels_json(&img.data));
                o.set("options", optj(d));
            }
            Op::DrawImageWithSizeAt(w, h, x, y, img, d) => {
                o.set("at", J::s(&format!("{},{} size {}x{}", fmt_f(*x), fmt_f(*y), fmt_f(*w), fmt_f(*h))));
                o.set("image", J::s(&format!("{}x{}", img.w, img.h)));
                o.set("data", pixels_json(&img.data));
                o.set("options", optj(d));
            }
            Op::UserScale(e) => {
                o.set("exponent", J::Int(*e as i64));
            }
            Op::BlitSurface(_, img, r, d, mode, alpha) => {
                o.set("source_surface", J::s(&format!("{}x{}", img.w, img.h)));
                o.set("data", pixels_json(&img.data));
                o.set("src_rect", J::s(&format!("({},{})-({},{})", r.0, r.1, r.2, r.3)));
                o.set("dst", J::s(&format!("({},{})", d.0, d.1)));
                o.set("mode_alpha", J::s(&format!("{} {}", mode_name(*mode), fmt_f(*alpha))));
            }
            Op::Text(t, s, d) => {
                o.set("text", J::s(&format!("{:?} font #{} size {} at {},{}", t.text, t.font, fmt_f(t.size), fmt_f(t.x), fmt_f(t.y))));
                o.set("source", s.desc());
                o.set("options", optj(d));
            }
        }
        o
    }
}

pub fn ops_json(ops: &[Op]) -> J {
    J::Arr(ops.iter().map(|o| o.desc()).collect())
}

/// a short piece of text on or near the surface (only meaningful when `crate::text::available() > 0`)
pub fn random_text(rng: &mut crate::prng::Rng, w: i32, h: i32) -> TextSpec {
    let n = rng.int(1, 3) as usize;
    let alphabet: Vec<char> = "AgW.il#o@Q8".chars().collect();
    let text: String = (0..n).map(|_| *rng.pick(&alphabet[..])).collect();
    let size = if rng.chance(0.3) { rng.int(6, 40) as f32 } else { rng.range(5., (h as f64 * 1.5).max(8.)) as f32 };
    TextSpec {
        font: rng.below(3) as usize,
        size,
        text,
        x: if rng.chance(0.5) { rng.int(-3, w as i64) as f32 } else { rng.range(-4., w as f64) as f32 },
        y: if rng.chance(0.5) { rng.int(0, h as i64 + 4) as f32 } else { rng.range(0., h as f64 + 4.) as f32 },
        glyphs: rng.chance(0.3),
    }
}

/// the same source with its user-space geometry multiplied by `f` (a power of two: exact in f32)
pub fn scale_source(s: &SrcSpec, f: f32) -> SrcSpec {
    let m = |p: &(f32, f32)| (p.0 * f, p.1 * f);
    match s {
        SrcSpec::Solid(p) => SrcSpec::Solid(*p),
        // user space shrinks by f, so the way into image space first undoes that
        SrcSpec::Image { w, h, data, repeat, bilinear, transform } => SrcSpec::Image { w: *w, h: *h, data: data.clone(), repeat: *repeat, bilinear: *bilinear, transform: Transform::scale(1. / f, 1. / f).then(transform) },
        SrcSpec::Linear { stops, start, end, spread } => SrcSpec::Linear { stops: stops.clone(), start: m(start), end: m(end), spread: *spread },
        SrcSpec::Radial { stops, center, radius, spread } => SrcSpec::Radial { stops: stops.clone(), center: m(center), radius: radius * f, spread: *spread },
        SrcSpec::TwoCircle { stops, c1, r1, c2, r2, spread } => SrcSpec::TwoCircle { stops: stops.clone(), c1: m(c1), r1: r1 * f, c2: m(c2), r2: r2 * f, spread: *spread },
        SrcSpec::Sweep { stops, center, start_angle, end_angle, spread } => SrcSpec::Sweep { stops: stops.clone(), center: m(center), start_angle: *start_angle, end_angle: *end_angle, spread: *spread },
    }
}

/// The call that draws the same picture when user space is magnified by `k` (a power of two): user-space
/// geometry, widths, dash lengths and source geometry are divided by k and every transform is preceded by
/// scale(k). Device-space calls (clip rectangles, mask position, clear, layers) stay as they are. None for
/// calls that have no such twin (text).
pub fn scaled_twin(op: &Op, k: f32) -> Option<Op> {
    let f = 1. / k;
    let sp = |p: &Path| p.clone().transform(&Transform::scale(f, f));
    Some(match op {
        Op::SetTransform(t) => Op::SetTransform(Transform::scale(k, k).then(t)),
        Op::PushClip(p) => Op::PushClip(sp(p)),
        Op::Fill(p, s, o) => Op::Fill(sp(p), scale_source(s, f), *o),
        Op::Stroke(p, s, st, o) => {
            let st2 = StrokeStyle { width: st.width * f, cap: st.cap, join: st.join, miter_limit: st.miter_limit, dash_array: st.dash_array.iter().map(|d| d * f).collect(), dash_offset: st.dash_offset * f };
            Op::Stroke(sp(p), scale_source(s, f), st2, *o)
        }
        Op::FillRect(x, y, w, h, s, o) => Op::FillRect(x * f, y * f, w * f, h * f, scale_source(s, f), *o),
        Op::Mask(s, x, y, mw, mh, d) => Op::Mask(scale_source(s, f), *x, *y, *mw, *mh, d.clone()),
        Op::DrawImageWithSizeAt(w, h, x, y, img, o) => Op::DrawImageWithSizeAt(w * f, h * f, x * f, y * f, img.clone(), *o),
        // draw_image_at draws the image at its natural size in user space
        Op::DrawImageAt(x, y, img, o) => Op::DrawImageWithSizeAt(img.w as f32 * f, img.h as f32 * f, x * f, y * f, img.clone(), *o),
        Op::Text(..) => return None,
        Op::PushClipRect(..) | Op::PopClip | Op::PushLayer(..) | Op::PopLayer | Op::Clear(_) | Op::UserScale(_) | Op::BlitSurface(..) => op.clone(),
    })
}

/// sources whose shading is invariant under the power-of-two scale family: linear and radial gradients are
/// normalised to a unit space by raqote, images carry their own transform; two-circle and sweep gradients are
/// evaluated in user units in 16.16 fixed point and change with the scale (and leave its range when magnified)
pub fn scale_invariant_source(s: &SrcSpec) -> SrcSpec {
    match s {
        SrcSpec::TwoCircle { stops, c1, r1, spread, .. } => SrcSpec::Radial { stops: stops.clone(), center: *c1, radius: r1.max(0.5), spread: *spread },
        SrcSpec::Sweep { stops, center, spread, .. } => SrcSpec::Linear { stops: stops.clone(), start: *center, end: (center.0 + 3., center.1 + 2.), spread: *spread },
        other => other.clone(),
    }
}
