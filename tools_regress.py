#!/usr/bin/env python3
"""Regression of the checks against every stored seeded change, in parallel lanes.

  tools_regress.py [--lanes N] [--only PREFIX] [--tier quick]

Each lane gets a scratch worktree of /repo and a scratch copy of /verif (outside both, under
/tmp/rv-lanes, removed at the end), with the harness pointed at the lane's worktree. For every
seeded/<id>/patch.diff the lane applies the patch, runs the quick check of the property the change
was written for, and undoes the patch. The result (which seeds are caught, by which check) is printed
and written to seeded/REGRESSION.json; nothing else in /verif is touched (evidence files are the
lanes' own copies).
"""
import json
import os
import re
import shutil
import subprocess
import sys
import threading

VERIF = os.path.dirname(os.path.abspath(__file__))
ROOT = "/tmp/rv-lanes"


def sh(cmd, cwd=None, timeout=7200):
    p = subprocess.run(cmd, shell=True, cwd=cwd, stdout=subprocess.PIPE, stderr=subprocess.STDOUT, text=True, timeout=timeout)
    return p.returncode, p.stdout


def props_of(sid, meta):
    if sid.startswith("rev-"):
        return sorted(set([meta.get("property")] + list(meta.get("also", []))))
    return [sid[:3]]


def lane(k, jobs, results, lock):
    base = os.path.join(ROOT, str(k))
    repo = os.path.join(base, "repo")
    verif = os.path.join(base, "verif")
    os.makedirs(base, exist_ok=True)
    # git worktree add is not safe to run concurrently; a lane whose setup fails must not take jobs (it would
    # turn every seed it touches into an inconclusive exit 2)
    with lock:
        shutil.rmtree(base, ignore_errors=True)
        os.makedirs(base, exist_ok=True)
        sh("git -C /repo worktree prune")
        rc0, o0 = sh("git -C /repo worktree add --detach %s HEAD" % repo)
    sh("rsync -a --exclude target --exclude .work --exclude replays --exclude .git %s/ %s/" % (VERIF, verif))
    sh("sed -i 's#path = \"/repo\"#path = \"%s\"#' harness/Cargo.toml" % repo, cwd=verif)
    rc1, o1 = sh("./check --setup", cwd=verif)
    if rc0 != 0 or rc1 != 0 or not os.path.isdir(os.path.join(repo, "src")):
        with lock:
            print("lane %d: setup failed, lane retired\n%s\n%s" % (k, o0[-400:], o1[-400:]), flush=True)
        sh("git -C /repo worktree remove --force %s" % repo)
        shutil.rmtree(base, ignore_errors=True)
        return
    while True:
        with lock:
            if not jobs:
                break
            sid = jobs.pop(0)
        d = os.path.join(VERIF, "seeded", sid)
        meta = json.load(open(os.path.join(d, "meta.json")))
        rc, o = sh("git apply %s" % os.path.join(d, "patch.diff"), cwd=repo)
        if rc != 0:
            rc, o = sh("git apply -3 %s" % os.path.join(d, "patch.diff"), cwd=repo)
        res = {}
        if rc != 0:
            res["error"] = "patch does not apply"
        else:
            # the property the change was written for first; if its check stays silent, the checks recorded as
            # having caught it before (the check that owns the affected behaviour)
            own = [p for p in props_of(sid, meta) if p]
            others = [p for p, v in meta.get("detected_by", {}).items() if p not in own and v.get("exit") == 1]
            for p in own + others:
                if p in others and any(v.get("exit") == 1 and v.get("violation_lines", 0) > 0 for v in res.values()):
                    break
                rc, o = sh("./check %s quick" % p, cwd=verif)
                if rc not in (0, 1):
                    # inconclusive (build or harness error): once more before it is reported as such
                    rc, o = sh("./check %s quick" % p, cwd=verif)
                viol = [l for l in o.splitlines() if l.startswith("VIOLATION")]
                first = [l.strip() for l in o.splitlines() if re.match(r"^\s+C\d+/", l)]
                res[p] = {"exit": rc, "violation_lines": len(viol), "first": first[0][:200] if first else ""}
                if rc not in (0, 1):
                    res[p]["tail"] = o[-600:]
        sh("git reset -q --hard HEAD && git clean -fdq", cwd=repo)
        with lock:
            results[sid] = res
            caught = [p for p, v in res.items() if isinstance(v, dict) and v.get("exit") == 1 and v.get("violation_lines", 0) > 0]
            print("%-12s %s" % (sid, "caught by " + ",".join(caught) if caught else "MISSED " + json.dumps(res)[:1200]), flush=True)
    sh("git -C /repo worktree remove --force %s" % repo)
    shutil.rmtree(base, ignore_errors=True)


def main():
    lanes = 8
    only = None
    rx = None
    a = sys.argv[1:]
    while a:
        if a[0] == "--lanes":
            lanes = int(a[1]); a = a[2:]
        elif a[0] == "--only":
            only = a[1]; a = a[2:]
        elif a[0] == "--match":
            rx = a[1]; a = a[2:]
        else:
            a = a[1:]
    ids = sorted(x for x in os.listdir(os.path.join(VERIF, "seeded")) if os.path.isfile(os.path.join(VERIF, "seeded", x, "patch.diff")))
    # changes that a later repair made harmless (their demo passes on the current tree) are not run
    ids = [i for i in ids if "neutralised" not in json.load(open(os.path.join(VERIF, "seeded", i, "meta.json")))]
    if only:
        ids = [i for i in ids if i.startswith(only)]
    if rx:
        ids = [i for i in ids if re.search(rx, i)]
    jobs = list(ids)
    results = {}
    lock = threading.Lock()
    ts = [threading.Thread(target=lane, args=(k, jobs, results, lock)) for k in range(lanes)]
    for t in ts:
        t.start()
    for t in ts:
        t.join()
    shutil.rmtree(ROOT, ignore_errors=True)
    sh("git -C /repo worktree prune")
    missed = [s for s in ids if not any(isinstance(v, dict) and v.get("exit") == 1 and v.get("violation_lines", 0) > 0 for v in results.get(s, {}).values())]
    out = os.path.join(VERIF, "seeded", "REGRESSION.json" if not (only or rx) else "REGRESSION-partial.json")
    json.dump({"seeds": len(ids), "missed": missed, "results": results}, open(out, "w"), indent=1, sort_keys=True)
    print("%d seeded changes, %d missed: %s" % (len(ids), len(missed), missed))
    return 1 if missed else 0


if __name__ == "__main__":
    sys.exit(main())
