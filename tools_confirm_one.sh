#!/bin/bash
# $1 = C07 ; confirms both seeds of the property (sequentially: they share the worktree)
cd /verif
id=$1
for k in 1 2; do
  suf=$([ $k = 1 ] && echo ${SUF1:-i} || echo ${SUF2:-j})
  if [ -f /tmp/wt/$id/seeded_out/$k/patch.diff ]; then
    r=$(python3 tools_seed.py confirm /tmp/wt/$id $id-$suf $k 2>&1 | tail -2 | tr '\n' ' ')
    echo "$id-$suf: $r"
  else echo "$id/$k missing"; fi
done
