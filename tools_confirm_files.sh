#!/bin/bash
# confirms the two deliverables of a file-focused agent worktree: tools_confirm_files.sh F07
# (the seed id is <property from meta.json>-m<agent number><1|2>)
cd /verif
f=$1
n=${f#F}
for k in 1 2; do
  d=/tmp/wt/$f/seeded_out/$k
  if [ -f $d/patch.diff ]; then
    prop=$(python3 -c "import json;print(json.load(open('$d/meta.json'))['property'][:3])")
    sid="$prop-m$n$k"
    r=$(python3 tools_seed.py confirm /tmp/wt/$f $sid $k 2>&1 | tail -2 | tr '\n' ' ')
    echo "$f/$k -> $sid: $r"
  else echo "$f/$k missing"; fi
done
