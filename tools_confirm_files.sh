#!/bin/bash
# confirms the two deliverables of a file-focused agent worktree: tools_confirm_files.sh F07 | G07
# (the seed id is <property from meta.json>-<m for F, n for G><agent number><1|2>)
cd /verif
f=$1
n=${f:1}
case ${f:0:1} in F) l=m;; G) l=n;; *) l=x;; esac
for k in 1 2; do
  d=/tmp/wt/$f/seeded_out/$k
  if [ -f $d/patch.diff ]; then
    prop=$(python3 -c "import json;print(json.load(open('$d/meta.json'))['property'][:3])")
    sid="$prop-$l$n$k"
    r=$(python3 tools_seed.py confirm /tmp/wt/$f $sid $k 2>&1 | tail -2 | tr '\n' ' ')
    echo "$f/$k -> $sid: $r"
  else echo "$f/$k missing"; fi
done
