#!/usr/bin/env python3
"""Seeded-change bookkeeping.

  tools_seed.py confirm <wt-dir> <seed-id>      confirm a sub-agent's change in its scratch worktree (44 tests pass with the
                                                patch, the demo fails with it and passes without) and store it under seeded/<seed-id>/
  tools_seed.py detect <seed-id> <prop> [...]   apply seeded/<seed-id>/patch.diff to /repo, run the quick checks, undo, record what fired
"""
import json
import os
import re
import shutil
import subprocess
import sys

VERIF = os.path.dirname(os.path.abspath(__file__))


def sh(cmd, cwd=None, timeout=3600):
    p = subprocess.run(cmd, shell=True, cwd=cwd, stdout=subprocess.PIPE, stderr=subprocess.STDOUT, text=True, timeout=timeout)
    return p.returncode, p.stdout


def confirm(wt, sid, sub=None):
    out_dir = os.path.join(wt, "seeded_out", sub) if sub else os.path.join(wt, "seeded_out")
    patch = os.path.join(out_dir, "patch.diff")
    demo = os.path.join(out_dir, "demo.rs")
    meta = json.load(open(os.path.join(out_dir, "meta.json")))
    ran = []
    sh("git checkout -- src && git checkout -- example.png", cwd=wt)
    rc, o = sh("git apply --check %s" % patch, cwd=wt)
    ran.append("git apply --check patch.diff on a clean checkout: rc %d" % rc)
    if rc != 0:
        print("PATCH DOES NOT APPLY", o)
        return 1
    sh("git apply %s" % patch, cwd=wt)
    os.makedirs(os.path.join(wt, "tests"), exist_ok=True)
    shutil.copy(demo, os.path.join(wt, "tests", "demo.rs"))
    rc, o = sh("cargo test --offline --lib 2>&1 | grep 'test result'", cwd=wt)
    ran.append("with patch: cargo test --offline --lib -> %s" % o.strip())
    ok44 = "44 passed; 0 failed" in o
    rc, o = sh("cargo test --offline --test demo 2>&1 | grep -E 'test result|error\\['", cwd=wt)
    ran.append("with patch: cargo test --offline --test demo -> %s" % o.strip())
    demo_fails = "FAILED" in o and "error[" not in o
    sh("git checkout -- src", cwd=wt)
    rc, o = sh("cargo test --offline --test demo 2>&1 | grep -E 'test result|error\\['", cwd=wt)
    ran.append("without patch: cargo test --offline --test demo -> %s" % o.strip())
    demo_passes = "test result: ok" in o and "FAILED" not in o
    sh("git checkout -- example.png", cwd=wt)
    print("\n".join(ran))
    if not (ok44 and demo_fails and demo_passes):
        print("NOT CONFIRMED: 44 tests ok=%s demo fails with patch=%s demo passes without=%s" % (ok44, demo_fails, demo_passes))
        return 1
    dst = os.path.join(VERIF, "seeded", sid)
    os.makedirs(dst, exist_ok=True)
    shutil.copy(patch, os.path.join(dst, "patch.diff"))
    shutil.copy(demo, os.path.join(dst, "demo.rs"))
    rc, head = sh("git rev-parse --short HEAD", cwd=wt)
    meta["confirmed"] = {"base_commit": head.strip(), "ran": ran, "origin": "independent sub-agent given only the property text"}
    meta.setdefault("detected_by", {})
    json.dump(meta, open(os.path.join(dst, "meta.json"), "w"), indent=1)
    print("CONFIRMED -> %s" % dst)
    return 0


def detect(sid, props):
    dst = os.path.join(VERIF, "seeded", sid)
    patch = os.path.join(dst, "patch.diff")
    meta = json.load(open(os.path.join(dst, "meta.json")))
    rc, o = sh("git diff --quiet", cwd="/repo")
    if rc != 0:
        print("/repo working tree is not clean")
        return 1
    rc, o = sh("git apply %s" % patch, cwd="/repo")
    if rc != 0:
        rc, o = sh("git apply -3 %s" % patch, cwd="/repo")
        if rc != 0:
            print("patch does not apply to /repo:", o)
            sh("git checkout -- .", cwd="/repo")
            return 1
    try:
        for p in props:
            rc, o = sh("./check %s quick" % p, cwd=VERIF)
            viol = [l for l in o.splitlines() if l.startswith("VIOLATION")]
            first = [l.strip() for l in o.splitlines() if re.match(r"^\s+C\d+/", l)]
            meta.setdefault("detected_by", {})[p] = {"exit": rc, "violation_lines": len(viol), "first": (first[0][:300] if first else "")}
            print("== %s on %s: exit %d, %d VIOLATION lines%s" % (sid, p, rc, len(viol), (" | " + first[0][:200]) if first else ""))
    finally:
        sh("git checkout -- . && git clean -fdq tests 2>/dev/null", cwd="/repo")
    json.dump(meta, open(os.path.join(dst, "meta.json"), "w"), indent=1)
    return 0


if __name__ == "__main__":
    if sys.argv[1] == "confirm":
        sys.exit(confirm(sys.argv[2], sys.argv[3], sys.argv[4] if len(sys.argv) > 4 else None))
    elif sys.argv[1] == "detect":
        sys.exit(detect(sys.argv[2], sys.argv[3:]))
