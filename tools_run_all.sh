#!/bin/bash
# runs every check (default tier quick) on the current tree and validates the evidence
tier=${1:-quick}
cd /verif
fail=0
for i in $(seq -w 1 20); do
  out=$(./check C$i $tier 2>&1); rc=$?
  echo "C$i rc=$rc $(echo "$out" | grep -E "^C$i (Quick|Thorough)" | tail -1)"
  echo "$out" | grep -E "^VIOLATION|INCONCLUSIVE" | head -3
  [ $rc -ne 0 ] && fail=1
done
python3-vt tools_validate.py | grep -v " ok"
exit $fail
