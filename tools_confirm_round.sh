#!/bin/bash
# usage: SUF1=g SUF2=h tools_confirm_round.sh C15 C11 ...   confirm + detect both seeds of each listed property
cd /verif
for id in "$@"; do
  for k in 1 2; do
    suf=$([ $k = 1 ] && echo ${SUF1:-c} || echo ${SUF2:-d})
    if [ -f /tmp/wt/$id/seeded_out/$k/patch.diff ]; then
      r=$(python3 tools_seed.py confirm /tmp/wt/$id $id-$suf $k 2>&1 | tail -1)
      echo "$id-$suf: $r"
      if echo "$r" | grep -q CONFIRMED; then python3 tools_seed.py detect $id-$suf $id | cut -c1-330; fi
    else echo "$id/$k missing"; fi
  done
done
